#!/bin/bash
# Build the harness once, offline, to warm the Go build cache and prove the
# framework builds from files on disk only.
set -e
cd "$(dirname "$0")"
export GOFLAGS=-mod=mod GOPROXY=off GOSUMDB=off GOTOOLCHAIN=local
out=$(mktemp -d /tmp/verif-setup.XXXXXX)
trap 'rm -rf "$out"' EXIT
cp sim/go.mod "$out/go.mod"
cp /repo/go.sum "$out/go.sum"
(cd sim && go build -modfile="$out/go.mod" -tags verif -o "$out/simcheck" .)
(cd /repo && go build -o "$out/jqawk" .)
"$out/simcheck" version
