#!/bin/bash
# Build the harness once, offline, to warm the Go build cache and prove the
# framework builds from files on disk only.
set -e
cd "$(dirname "$0")"
export GOFLAGS=-mod=mod GOPROXY=off GOSUMDB=off GOTOOLCHAIN=local
cp /repo/go.sum sim/go.sum
out=$(mktemp -d /tmp/verif-setup.XXXXXX)
trap 'rm -rf "$out"' EXIT
(cd sim && go build -tags verif -o "$out/simcheck" .)
(cd /repo && go build -o "$out/jqawk" .)
"$out/simcheck" version
