#!/bin/bash
# check.sh <P> quick|thorough   |   check.sh replay <file>   |   check.sh selftest [args]
# Rebuilds the harness and the jqawk binary from /repo's current working tree
# into a per-invocation scratch directory, runs the check, removes the scratch.
# exit 0 = property held on everything explored; 1 = VIOLATION printed;
# 2 = build / harness / watchdog trouble (never a violation).
cd "$(dirname "$0")" || exit 2
export GOFLAGS=-mod=mod GOPROXY=off GOSUMDB=off GOTOOLCHAIN=local
export VERIF_DIR="$(pwd)"
REPO=${VERIF_REPO:-/repo}
scratch=$(mktemp -d /tmp/verif-run.XXXXXX) || exit 2
trap 'rm -rf "$scratch"' EXIT
# module file with the replace directive pointing at the tree under test
sed "s#=> /repo#=> $REPO#" sim/go.mod > "$scratch/go.mod"
cp "$REPO/go.sum" "$scratch/go.sum" 2>/dev/null
if ! (cd sim && go build -modfile="$scratch/go.mod" -tags verif -o "$scratch/simcheck" . ) >"$scratch/build.log" 2>&1; then
  echo "BUILD FAILED (harness against $REPO with -tags verif):" >&2
  cat "$scratch/build.log" >&2
  exit 2
fi
if ! (cd "$REPO" && go build -o "$scratch/jqawk" . ) >"$scratch/build2.log" 2>&1; then
  echo "BUILD FAILED (jqawk binary):" >&2
  cat "$scratch/build2.log" >&2
  exit 2
fi
export SIM_JQAWK="$scratch/jqawk"
export SIM_SCRATCH="$scratch/work"
mkdir -p "$SIM_SCRATCH"
case "$1" in
  replay)   "$scratch/simcheck" replay "$2"; rc=$? ;;
  selftest) shift; "$scratch/simcheck" selftest "$@"; rc=$? ;;
  gen)      shift; "$scratch/simcheck" gen "$@"; rc=$? ;;
  *)        tier=${2:-${VERIF_TIER:-quick}}; "$scratch/simcheck" check "$1" "$tier"; rc=$? ;;
esac
exit $rc
