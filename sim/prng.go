package main

// One integer decides everything: every choice made while generating or
// running a case comes from a Tape, which is either fed by a PRNG derived
// from (VERIF_SEED, property, workload, tier, index) or replays a recorded
// list of draws. No math/rand, no clock, no pid.

import (
	"hash/fnv"
	"strconv"
)

type Rng struct{ s [4]uint64 }

func splitmix64(x *uint64) uint64 {
	*x += 0x9e3779b97f4a7c15
	z := *x
	z = (z ^ (z >> 30)) * 0xbf58476d1ce4e5b9
	z = (z ^ (z >> 27)) * 0x94d049bb133111eb
	return z ^ (z >> 31)
}

func NewRng(seed uint64) *Rng {
	r := &Rng{}
	x := seed
	for i := range r.s {
		r.s[i] = splitmix64(&x)
	}
	return r
}

func rotl(x uint64, k uint) uint64 { return (x << k) | (x >> (64 - k)) }

// xoshiro256**
func (r *Rng) Uint64() uint64 {
	res := rotl(r.s[1]*5, 7) * 9
	t := r.s[1] << 17
	r.s[2] ^= r.s[0]
	r.s[3] ^= r.s[1]
	r.s[1] ^= r.s[2]
	r.s[0] ^= r.s[3]
	r.s[2] ^= t
	r.s[3] = rotl(r.s[3], 45)
	return res
}

// DeriveSeed hashes the root seed with labels into a stream seed.
func DeriveSeed(seed int64, labels ...string) uint64 {
	h := fnv.New64a()
	h.Write([]byte(strconv.FormatInt(seed, 10)))
	for _, l := range labels {
		h.Write([]byte{0})
		h.Write([]byte(l))
	}
	x := h.Sum64()
	return splitmix64(&x)
}

// Tape is the sole choice source of a case. Draw(n) returns a value in
// [0,n); 0 is always the "simplest" choice by generator convention.
type Tape struct {
	rng       *Rng
	replay    []uint32
	pos       int
	Rec       []uint32
	replaying bool
}

func NewTape(seed uint64) *Tape { return &Tape{rng: NewRng(seed)} }

func ReplayTape(rec []uint32) *Tape { return &Tape{replay: rec, replaying: true} }

func (t *Tape) Draw(n int) int {
	if n <= 1 {
		// still consume a slot so that structure stays aligned
		t.Rec = append(t.Rec, 0)
		if t.replaying {
			t.pos++
		}
		return 0
	}
	var v int
	if t.replaying {
		if t.pos < len(t.replay) {
			v = int(t.replay[t.pos])
			if v >= n {
				v = n - 1
			}
		}
		t.pos++
	} else {
		v = int(t.rng.Uint64() % uint64(n))
	}
	t.Rec = append(t.Rec, uint32(v))
	return v
}

// Forced records v as if it had been drawn from [0,n) when generating from
// the PRNG; when replaying it returns the recorded (possibly shrunk) value.
func (t *Tape) Forced(v, n int) int {
	if t.replaying {
		return t.Draw(n)
	}
	t.Rec = append(t.Rec, uint32(v))
	return v
}

// Range returns a value in [lo,hi].
func (t *Tape) Range(lo, hi int) int { return lo + t.Draw(hi-lo+1) }

// Chance returns true with probability num/den; false is the simple choice.
func (t *Tape) Chance(num, den int) bool { return t.Draw(den) >= den-num }

// Weighted picks an index with the given weights; index 0 is simplest.
func (t *Tape) Weighted(w ...int) int {
	sum := 0
	for _, x := range w {
		sum += x
	}
	v := t.Draw(sum)
	for i, x := range w {
		if v < x {
			return i
		}
		v -= x
	}
	return len(w) - 1
}

func (t *Tape) Pick(n int) int { return t.Draw(n) }

// ShrinkTape minimises a failing tape. fails(tape) must be deterministic and
// returns true iff the same violation class persists. Bounded by maxEvals (a
// count, never a clock).
func ShrinkTape(tape []uint32, fails func([]uint32) bool, maxEvals int) ([]uint32, int) {
	best := append([]uint32(nil), tape...)
	evals := 0
	try := func(c []uint32) bool {
		if evals >= maxEvals {
			return false
		}
		evals++
		if fails(c) {
			best = append([]uint32(nil), c...)
			return true
		}
		return false
	}
	improved := true
	for improved && evals < maxEvals {
		improved = false
		// delete blocks, largest first (a long history collapses in a few steps)
		start := 16
		for start < len(best)/2 {
			start *= 2
		}
		for size := start; size >= 1; size /= 2 {
			for i := 0; i+size <= len(best) && evals < maxEvals; {
				c := append(append([]uint32(nil), best[:i]...), best[i+size:]...)
				if try(c) {
					improved = true
				} else {
					i += size
				}
			}
		}
		// zero blocks
		for size := 8; size >= 1; size /= 2 {
			for i := 0; i+size <= len(best) && evals < maxEvals; i += size {
				allZero := true
				for j := i; j < i+size; j++ {
					if best[j] != 0 {
						allZero = false
					}
				}
				if allZero {
					continue
				}
				c := append([]uint32(nil), best...)
				for j := i; j < i+size; j++ {
					c[j] = 0
				}
				if try(c) {
					improved = true
				}
			}
		}
		// lower entries
		for i := 0; i < len(best) && evals < maxEvals; i++ {
			for best[i] > 0 && evals < maxEvals {
				c := append([]uint32(nil), best...)
				c[i] = best[i] / 2
				if try(c) {
					improved = true
					continue
				}
				c = append([]uint32(nil), best...)
				c[i] = best[i] - 1
				if try(c) {
					improved = true
					continue
				}
				break
			}
		}
	}
	// strip trailing zeros (replay pads with zeros anyway)
	for len(best) > 0 && best[len(best)-1] == 0 {
		best = best[:len(best)-1]
	}
	return best, evals
}
