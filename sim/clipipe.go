package main

// C03 at the process boundary with a transport the harness owns: the real
// binary reads its input from a pipe (stdin, or a named pipe given as a file
// argument) and the harness decides, from the case's schedule, how many bytes
// arrive before the binary has to block again. Quiescence is observed, not
// timed: the binary is quiescent when the pipe is drained and one of its
// threads sits in read(2) on the input descriptor, or all of them are inside
// system calls with one waiting in epoll (/proc/<pid>/task/*/syscall).
// At every quiescent point monitor M1 applies: the output of every value that
// has been delivered together with one following byte must be in the stdout
// file. A missing output is only reported after the binary has stayed blocked
// on its input for a long grace period without writing it (so a slow machine
// or an implementation that writes from another goroutine cannot raise a false
// alarm: no further input will ever make the output appear earlier).

import (
	"fmt"
	"os"
	"os/exec"
	"path/filepath"
	"strconv"
	"strings"
	"sync/atomic"
	"syscall"
	"time"
	"unsafe"
)

type PipeCase struct {
	Stream *StreamCase `json:"stream"`
	Cuts   []int       `json:"cuts"`  // chunk lengths written to the pipe, in order; the rest follows the last one
	Named  bool        `json:"named"` // the pipe is a named pipe passed as a file argument instead of stdin
	ViaF   bool        `json:"via_f"`
}

func pipeUnread(fd uintptr) int {
	var n int32
	_, _, e := syscall.Syscall(syscall.SYS_IOCTL, fd, 0x541B /* FIONREAD */, uintptr(unsafe.Pointer(&n)))
	if e != 0 {
		return -1
	}
	return int(n)
}

// blockedInRead looks at every thread of pid (x86-64 syscall numbers): fds are
// the descriptors on which a thread is inside read(2); polling reports a
// thread parked in epoll_wait / epoll_pwait (how the Go runtime waits for a
// named pipe); idle is true when no thread is running user code, i.e. every
// thread is inside some system call.
func blockedInRead(pid int) (fds []int, polling, idle, alive bool) {
	ents, err := os.ReadDir(fmt.Sprintf("/proc/%d/task", pid))
	if err != nil {
		return nil, false, false, false
	}
	idle = true
	for _, e := range ents {
		b, err := os.ReadFile(fmt.Sprintf("/proc/%d/task/%s/syscall", pid, e.Name()))
		if err != nil {
			continue
		}
		f := strings.Fields(string(b))
		if len(f) == 0 || f[0] == "running" || f[0] == "-1" {
			idle = false
			continue
		}
		switch f[0] {
		case "0":
			if len(f) >= 2 {
				if fd, err := strconv.ParseInt(strings.TrimPrefix(f[1], "0x"), 16, 64); err == nil {
					fds = append(fds, int(fd))
				}
			}
		case "232", "281":
			polling = true
		}
	}
	return fds, polling, idle, true
}

func runCliPipe(pc *PipeCase, keep bool) Outcome {
	log := newEventLog(keep)
	o := Outcome{Probes: map[string]int{}, Faults: map[string]int{}}
	c := pc.Stream
	finish := func() Outcome {
		o.LogHash, o.Log, o.Steps = log.Hash(), log.lines, log.seq
		return o
	}
	if jqawkBin() == "" {
		o.Class, o.Msg = "harness", "SIM_JQAWK not set"
		return finish()
	}
	if c == nil || len(c.Files) != 1 || c.Prog == nil {
		o.Skipped = "needs exactly one input and a trace program"
		return finish()
	}
	if c.ProgText == "" {
		c.ProgText = c.Prog.Render()
	}
	data := []byte(c.Files[0].Data)
	ref := ScanStream(data)
	if ref.Status != RefClean || ref.Dubious {
		o.Skipped = "needs a clean stream"
		return finish()
	}
	var vals []*JVal
	for _, v := range ref.Values {
		vals = append(vals, v.V)
	}
	name := "<stdin>"
	if pc.Named {
		name = "in.pipe"
	}
	model := RunModel(c.Prog, []ModelFile{{name, vals}}, nil, true)
	if !model.OK {
		o.Skipped = "outside model domain: " + model.Why
		return finish()
	}
	n := atomic.AddInt64(&procCounter, 1)
	dir := filepath.Join(procScratch(), fmt.Sprintf("pipe-%d-%d", os.Getpid(), n))
	if err := os.MkdirAll(dir, 0o755); err != nil {
		o.Class, o.Msg = "harness", err.Error()
		return finish()
	}
	defer os.RemoveAll(dir)
	outPath := filepath.Join(dir, "stdout.txt")
	so, _ := os.Create(outPath)
	se, _ := os.Create(filepath.Join(dir, "stderr.txt"))
	defer so.Close()
	defer se.Close()
	var args []string
	if pc.ViaF {
		os.WriteFile(filepath.Join(dir, "prog.jqawk"), []byte(c.ProgText), 0o644)
		args = []string{"-f", "prog.jqawk"}
	} else {
		if strings.HasPrefix(c.ProgText, "-") {
			args = append(args, "--")
		}
		args = append(args, c.ProgText)
	}
	var w *os.File
	var rEnd *os.File
	cmd := exec.Command(jqawkBin(), args...)
	if pc.Named {
		p := filepath.Join(dir, "in.pipe")
		if err := syscall.Mkfifo(p, 0o644); err != nil {
			o.Class, o.Msg = "harness", err.Error()
			return finish()
		}
		cmd.Args = append(cmd.Args, "in.pipe")
		dn, _ := os.Open(os.DevNull)
		defer dn.Close()
		cmd.Stdin = dn
	} else {
		var err error
		rEnd, w, err = os.Pipe()
		if err != nil {
			o.Class, o.Msg = "harness", err.Error()
			return finish()
		}
		cmd.Stdin = rEnd
	}
	cmd.Dir = dir
	cmd.Stdout, cmd.Stderr = so, se
	cmd.Env = []string{"PATH=/usr/bin:/bin", "HOME=" + dir}
	if err := cmd.Start(); err != nil {
		o.Class, o.Msg = "harness", err.Error()
		return finish()
	}
	if rEnd != nil {
		rEnd.Close()
	}
	pid := cmd.Process.Pid
	exited := make(chan error, 1)
	go func() { exited <- cmd.Wait() }()
	var werr error
	done := false
	deadline := time.Now().Add(120 * time.Second)
	kill := func(why string) Outcome {
		cmd.Process.Kill()
		if !done {
			<-exited
		}
		if w != nil {
			w.Close()
		}
		o.Class, o.Msg = "harness", why
		return finish()
	}
	if pc.Named {
		// the writing end can be opened once the binary has opened the pipe
		for w == nil {
			fd, err := syscall.Open(filepath.Join(dir, "in.pipe"), syscall.O_WRONLY|syscall.O_NONBLOCK, 0)
			if err == nil {
				syscall.SetNonblock(fd, false)
				w = os.NewFile(uintptr(fd), "in.pipe")
				break
			}
			select {
			case werr = <-exited:
				done = true
			default:
			}
			if done {
				break
			}
			if time.Now().After(deadline) {
				return kill("the binary never opened the named pipe")
			}
			time.Sleep(200 * time.Microsecond)
		}
	}
	written := func() int {
		st, err := os.Stat(outPath)
		if err != nil {
			return 0
		}
		return int(st.Size())
	}
	// waitQuiescent: the pipe is drained and a thread of the binary is blocked in
	// read(2) (on stdin, or on any descriptor above 2 for the named pipe), twice in a row
	waitQuiescent := func() bool {
		streak := 0
		for {
			select {
			case werr = <-exited:
				done = true
				return false
			default:
			}
			q := false
			if pipeUnread(w.Fd()) == 0 {
				fds, polling, idle, alive := blockedInRead(pid)
				if !alive {
					time.Sleep(200 * time.Microsecond)
					continue
				}
				for _, fd := range fds {
					if (!pc.Named && fd == 0) || (pc.Named && fd > 2) {
						q = true
					}
				}
				// the Go runtime reads a named pipe through its poller: no thread
				// runs and one of them waits in epoll
				if idle && polling {
					q = true
				}
			}
			if q {
				streak++
				if streak >= 2 {
					return true
				}
			} else {
				streak = 0
			}
			if time.Now().After(deadline) {
				return false
			}
			time.Sleep(150 * time.Microsecond)
		}
	}
	delivered := 0
	owedAt := func(delivered int) (int, int) {
		vi := -1
		for i, v := range ref.Values {
			if v.End+1 <= delivered {
				vi = i
			}
		}
		return model.PrefixLen(0, vi), vi
	}
	check := func() bool {
		owed, vi := owedAt(delivered)
		got := written()
		log.add('P', 0, "QUIESCENT delivered=%d owed=%d", delivered, owed)
		o.Probes["quiescent_points"]++
		if got >= owed {
			return true
		}
		// grace: the binary is blocked on its input; nothing but more input can
		// change what it does, so waiting cannot hide a genuine delay
		grace := time.Now().Add(3 * time.Second)
		for time.Now().Before(grace) {
			time.Sleep(2 * time.Millisecond)
			if got = written(); got >= owed {
				o.Probes["output_arrived_during_grace"]++
				return true
			}
		}
		o.Class = "late-output"
		o.Msg = fmt.Sprintf("the binary is blocked reading its input after %d bytes (value #%d and one following byte delivered) and has written only %d of the %d output bytes owed by then", delivered, vi, got, owed)
		return false
	}
	if w != nil && !done {
		cuts := append([]int(nil), pc.Cuts...)
		for delivered < len(data) && !done {
			if !waitQuiescent() {
				break
			}
			if !check() {
				cmd.Process.Kill()
				<-exited
				w.Close()
				return finish()
			}
			k := len(data) - delivered
			if len(cuts) > 0 {
				if cuts[0] < k {
					k = cuts[0]
				}
				cuts = cuts[1:]
			}
			if k <= 0 {
				continue
			}
			if _, err := w.Write(data[delivered : delivered+k]); err != nil {
				break
			}
			delivered += k
			o.Probes["chunks_delivered"]++
		}
		if !done && delivered == len(data) {
			if waitQuiescent() {
				if !check() {
					cmd.Process.Kill()
					<-exited
					w.Close()
					return finish()
				}
			}
		}
	}
	if w != nil {
		w.Close()
	}
	if !done {
		select {
		case werr = <-exited:
			done = true
		case <-time.After(time.Until(deadline)):
			return kill("binary exceeded the watchdog after its input was closed")
		}
	}
	outb, _ := os.ReadFile(outPath)
	errb, _ := os.ReadFile(filepath.Join(dir, "stderr.txt"))
	o.Nontrivial = len(vals) >= 2 && o.Probes["chunks_delivered"] >= 2
	o.Shape = fmt.Sprintf("pipe|named=%v|chunks=%d|vals=%d", pc.Named, bucketLen(o.Probes["chunks_delivered"]), len(vals))
	log.add('P', 0, "EXIT err=%v stdout_len=%d", werr, len(outb))
	if crashSignature(string(errb)) {
		o.Class, o.Msg = "process-crash", truncate(string(errb), 400)
		return finish()
	}
	if werr != nil || string(outb) != model.Text() {
		o.Class = "stdout-mismatch"
		o.Msg = fmt.Sprintf("exit error %v (stderr %q); stdout differs from the reference schedule\n--- expected ---\n%s--- observed ---\n%s", werr, truncate(string(errb), 200), truncate(model.Text(), 500), truncate(string(outb), 500))
	}
	return finish()
}

func genPipeCase(t *Tape) *PipeCase {
	c := genStreamCase(t, streamGenOpts{mode: "c03", maxFiles: 1, maxVals: 6, sigProb: 10})
	if len(c.Files) == 0 {
		c.Files = []SimFile{{Name: "in"}}
	}
	c.Files = c.Files[:1]
	c.Selectors = nil
	c.Fault = nil
	c.Files[0].Sched = nil
	sanitizeSelectors(c)
	pc := &PipeCase{Stream: c, Named: t.Chance(1, 3), ViaF: t.Chance(1, 4)}
	g := &streamGen{t: t, profile: t.Weighted(3, 3, 2, 2)}
	if t.Chance(1, 3) {
		// longer than the decoder's buffer
		for len(c.Files[0].Data) < 600+t.Draw(1500) {
			c.Files[0].Data = append(c.Files[0].Data, g.fileText(1+t.Draw(3))...)
			c.Files[0].Data = append(c.Files[0].Data, '\n')
		}
	}
	data := []byte(c.Files[0].Data)
	ref := ScanStream(data)
	n := len(data)
	switch t.Weighted(4, 2, 2, 1) {
	case 0:
		// cuts at value boundaries: at the end, one past, one before, sometimes mid-value
		pos := 0
		for _, v := range ref.Values {
			if t.Chance(1, 4) && v.End-v.Start > 2 {
				cut := v.Start + 1 + t.Draw(v.End-v.Start-1)
				if cut > pos {
					pc.Cuts = append(pc.Cuts, cut-pos)
					pos = cut
				}
			}
			cut := v.End + t.Draw(3) - 1
			if cut > pos && cut <= n {
				pc.Cuts = append(pc.Cuts, cut-pos)
				pos = cut
			}
		}
	case 1:
		for left := n; left > 0 && len(pc.Cuts) < 40; {
			k := 1 + t.Draw(8)
			pc.Cuts = append(pc.Cuts, k)
			left -= k
		}
	case 2:
		for left := n; left > 0 && len(pc.Cuts) < 40; {
			k := 1 << uint(t.Draw(10))
			pc.Cuts = append(pc.Cuts, k)
			left -= k
		}
	default:
		// everything at once
	}
	return pc
}

func cliPipeWorkload(count map[string]int) *Workload {
	return &Workload{
		Name:        "cli-pipe-schedule",
		Count:       func(tier string) int { return count[tier] },
		Gen:         func(i int, t *Tape, tier string) any { return genPipeCase(t) },
		Run:         func(c any, keep bool) Outcome { return runCliPipe(c.(*PipeCase), keep) },
		New:         func() any { return &PipeCase{} },
		NoRecheck:   true,
		ShrinkEvals: 60,
	}
}

// ---------------------------------------------------------------- C02 at the process boundary
//
// The rule schedule as the real binary produces it: several named inputs,
// each a regular file or a named pipe, or standard input behind a file, a
// file at an offset or a pipe; the reference schedule model predicts stdout.

type CliSchedCase struct {
	Stream    *StreamCase `json:"stream"`
	Kinds     []string    `json:"kinds"` // per file: regular | fifo
	Stdin     bool        `json:"stdin"` // the (single) input arrives on standard input
	StdinMode string      `json:"stdin_mode,omitempty"`
	ViaF      bool        `json:"via_f"`
	// InPlace: -o names the (single, regular) input file itself: the rules run
	// over what the file held; only then is it overwritten
	InPlace bool `json:"in_place,omitempty"`
}

func runCliSched(cc *CliSchedCase, keep bool) Outcome {
	log := newEventLog(keep)
	o := Outcome{Probes: map[string]int{}, Faults: map[string]int{}}
	finish := func() Outcome {
		o.LogHash, o.Log, o.Steps = log.Hash(), log.lines, log.seq
		return o
	}
	c := cc.Stream
	if jqawkBin() == "" {
		o.Class, o.Msg = "harness", "SIM_JQAWK not set"
		return finish()
	}
	if c == nil || c.Prog == nil || len(c.Files) == 0 {
		o.Skipped = "needs a trace program and at least one input"
		return finish()
	}
	if c.ProgText == "" {
		c.ProgText = c.Prog.Render()
	}
	pc := &ProcCase{Prog: c.ProgText, ViaF: cc.ViaF}
	var mfiles []ModelFile
	for i, f := range c.Files {
		ref := ScanStream(f.Data)
		if ref.Status != RefClean || ref.Dubious {
			o.Skipped = "needs clean streams"
			return finish()
		}
		var vals []*JVal
		for _, v := range ref.Values {
			vals = append(vals, v.V)
		}
		name := f.Name
		if cc.Stdin {
			if i > 0 {
				break
			}
			name = "<stdin>"
			pc.Stdin, pc.StdinMode = f.Data, cc.StdinMode
		} else {
			kind := "regular"
			if i < len(cc.Kinds) && cc.Kinds[i] == "fifo" {
				kind = "fifo"
				o.Faults["input_fifo"]++
			}
			pc.Inputs = append(pc.Inputs, ProcFile{Name: name, Data: f.Data, Kind: kind})
		}
		mfiles = append(mfiles, ModelFile{name, vals})
	}
	model := RunModel(c.Prog, mfiles, nil, true)
	if !model.OK {
		o.Skipped = "outside model domain: " + model.Why
		return finish()
	}
	if cc.InPlace && len(pc.Inputs) == 1 && pc.Inputs[0].Kind == "regular" && len(mfiles[0].Values) > 0 {
		pc.OMode = "inplace"
		o.Probes["o_names_the_input"]++
	}
	res, trouble := runBinary(pc, "")
	if trouble != nil {
		o.Class, o.Msg = "harness", trouble.Error()
		return finish()
	}
	log.add('P', 0, "EXEC exit=%d stdout_len=%d stderr=%q", res.exit, len(res.stdout), truncate(res.stderr, 200))
	if pc.OMode == "inplace" && res.exit != 0 && strings.Contains(res.stderr, "error writing JSON") && res.stdout == model.Text() {
		// the rules ran as they should; the final value could not be written as JSON (not C02's matter)
		return finish()
	}
	o.Nontrivial = len(model.Lines) >= 2
	o.Shape = fmt.Sprintf("cli-sched|files=%d|stdin=%v%s|rules=%d", len(mfiles), cc.Stdin, cc.StdinMode, bucketLen(len(c.Prog.Rules)))
	if res.signaled || crashSignature(res.stderr) {
		o.Class, o.Msg = "process-crash", truncate(res.stderr, 400)
		return finish()
	}
	if res.exit != 0 || res.stdout != model.Text() {
		o.Class = "stdout-mismatch"
		o.Msg = fmt.Sprintf("exit status %d (stderr %q); stdout differs from the reference schedule\n--- expected ---\n%s--- observed ---\n%s", res.exit, truncate(res.stderr, 200), truncate(model.Text(), 700), truncate(res.stdout, 700))
	}
	return finish()
}

func genCliSchedCase(t *Tape) *CliSchedCase {
	c := genStreamCase(t, streamGenOpts{mode: "c02", maxFiles: 3, maxVals: 4, sigProb: 20, benign: true})
	c.Selectors = nil
	c.Fault = nil
	if len(c.Files) == 0 {
		c.Files = []SimFile{{Name: "f0.json"}}
	}
	seen := map[string]bool{}
	for i := range c.Files {
		c.Files[i].Sched = nil
		// one path per input
		if n := c.Files[i].Name; seen[n] || strings.ContainsAny(n, "<>") || n == "" {
			c.Files[i].Name = fmt.Sprintf("in%d.json", i)
		}
		seen[c.Files[i].Name] = true
	}
	sanitizeSelectors(c)
	cc := &CliSchedCase{Stream: c, ViaF: t.Chance(1, 3), InPlace: t.Chance(1, 5)}
	if len(c.Files) == 1 && t.Chance(1, 3) {
		cc.Stdin = true
		cc.StdinMode = []string{"", "offset", "pipe"}[t.Draw(3)]
	} else {
		for range c.Files {
			cc.Kinds = append(cc.Kinds, []string{"regular", "regular", "fifo"}[t.Draw(3)])
		}
	}
	return cc
}

func cliSchedWorkload(count map[string]int) *Workload {
	return &Workload{
		Name:        "cli-schedule",
		Count:       func(tier string) int { return count[tier] },
		Gen:         func(i int, t *Tape, tier string) any { return genCliSchedCase(t) },
		Run:         func(c any, keep bool) Outcome { return runCliSched(c.(*CliSchedCase), keep) },
		New:         func() any { return &CliSchedCase{} },
		ShrinkEvals: 200,
	}
}

// ---------------------------------------------------------------- C14: several root selectors
//
// "-r selectors are processed in the order given", each for each document: for
// a single document and a program that keeps no state between roots, the run
// with -r A -r B must print what the run with -r A prints followed by what the
// run with -r B prints -- also when the program changes what A selected.

type SelSumCase struct {
	Prog string `json:"prog"`
	Doc  QBytes `json:"doc"`
	A    string `json:"a"`
	B    string `json:"b"`
	ViaF bool   `json:"via_f"`
}

var selSumProgs = []string{
	"BEGINFILE { print \"bf\", $ }\n{ print \"e\", $ }\nENDFILE { print \"ef\" }\n",
	"{ if ($ is object) { $.seen = 1 }\n print $ }\n",
	"BEGINFILE { if ($ is array) { $.push(99)\n $[0] = \"w\" }\n print $ }\n",
	"BEGINFILE { if ($ is array) { print $.pop(), $.length() } else { print \"-\" } }\n{ print $ }\n",
	"{ if ($ is number) { $ = $ * 10 }\n print $ }\n",
	"{ if ($ is object) { $.id = $.id * 10\n print $.id } else { print $ } }\n",
	"BEGINFILE { if ($ is object) { $.items[0] = \"first\"\n $.a = [] }\n print $ }\n",
	"BEGINFILE { if ($ is array) { $.popfirst() } }\n{ print $ }\n",
	"{ $ = \"gone\" }\nENDFILE { print \"ef\" }\n",
}
var selSumSelectors = []string{"$", "$.items", "$.a", "$.b", "$.items", "$.items[0]", "$.a[0]", "$.id", "$.zz"}

func runSelSum(c *SelSumCase, keep bool) Outcome {
	log := newEventLog(keep)
	o := Outcome{Probes: map[string]int{}, Nontrivial: true}
	finish := func() Outcome {
		o.LogHash, o.Log, o.Steps = log.Hash(), log.lines, log.seq
		return o
	}
	if jqawkBin() == "" {
		o.Class, o.Msg = "harness", "SIM_JQAWK not set"
		return finish()
	}
	run := func(sel []string) (procResult, error) {
		pc := &ProcCase{Prog: c.Prog, ViaF: c.ViaF, Selectors: sel, Inputs: []ProcFile{{Name: "doc.json", Data: c.Doc, Kind: "regular"}}}
		return runBinary(pc, "")
	}
	both, err := run([]string{c.A, c.B})
	if err != nil {
		o.Class, o.Msg = "harness", err.Error()
		return finish()
	}
	ra, err := run([]string{c.A})
	if err != nil {
		o.Class, o.Msg = "harness", err.Error()
		return finish()
	}
	rb, err := run([]string{c.B})
	if err != nil {
		o.Class, o.Msg = "harness", err.Error()
		return finish()
	}
	log.add('P', 0, "EXEC both=%d a=%d b=%d", both.exit, ra.exit, rb.exit)
	o.Shape = fmt.Sprintf("selsum|%s|%s|%x", c.A, c.B, hashStr(c.Prog))
	for _, r := range []procResult{both, ra, rb} {
		if r.signaled || crashSignature(r.stderr) {
			o.Class, o.Msg = "process-crash", truncate(r.stderr, 400)
			return finish()
		}
	}
	if ra.exit != 0 || rb.exit != 0 {
		// a failing selector or rule: the combined run must fail too; how far it got is not compared
		if both.exit == 0 {
			o.Class, o.Msg = "exit-0-on-error", fmt.Sprintf("-r %s alone exits %d, -r %s alone exits %d, both together exit 0", c.A, ra.exit, c.B, rb.exit)
		}
		return finish()
	}
	o.Probes["selector_sums_compared"]++
	if both.exit != 0 || both.stdout != ra.stdout+rb.stdout {
		o.Class = "relation-selector-sum"
		o.Msg = fmt.Sprintf("-r %s -r %s (exit %d) does not print what -r %s prints followed by what -r %s prints\n--- together ---\n%s\n--- first alone ---\n%s\n--- second alone ---\n%s", c.A, c.B, both.exit, c.A, c.B, truncate(both.stdout, 500), truncate(ra.stdout, 400), truncate(rb.stdout, 400))
	}
	return finish()
}

func selSumWorkload(count map[string]int) *Workload {
	return &Workload{
		Name:  "selector-sum",
		Count: func(tier string) int { return count[tier] },
		Gen: func(i int, t *Tape, tier string) any {
			g := &streamGen{t: t, profile: 3, rich: true}
			doc := g.objectText(true)
			if t.Chance(1, 4) {
				doc = g.arrayText(true)
			}
			return &SelSumCase{Prog: selSumProgs[t.Draw(len(selSumProgs))], Doc: QBytes(doc), A: selSumSelectors[t.Draw(len(selSumSelectors))], B: selSumSelectors[t.Draw(len(selSumSelectors))], ViaF: t.Chance(1, 4)}
		},
		Run:         func(c any, keep bool) Outcome { return runSelSum(c.(*SelSumCase), keep) },
		New:         func() any { return &SelSumCase{} },
		ShrinkEvals: 100,
	}
}

// ---------------------------------------------------------------- C01: an input file shrinks under the running binary
//
// A storage fault: while the binary is blocked on an earlier input (a named
// pipe the harness feeds), a later input file that it has already opened is
// truncated by another process. Whatever the binary makes of the shorter file,
// it ends by itself: status 0, or non-zero with a diagnostic; never a signal
// or a runtime crash.

type ShrinkCase struct {
	Elems   int    `json:"elems"`    // elements of the big array (each 8 bytes)
	NewSize int    `json:"new_size"` // size the file is truncated to
	Prog    string `json:"prog"`
}

func runShrinkCase(c *ShrinkCase, keep bool) Outcome {
	log := newEventLog(keep)
	o := Outcome{Probes: map[string]int{}, Faults: map[string]int{}, Nontrivial: true}
	finish := func() Outcome {
		o.LogHash, o.Log, o.Steps = log.Hash(), log.lines, log.seq
		return o
	}
	if jqawkBin() == "" {
		o.Class, o.Msg = "harness", "SIM_JQAWK not set"
		return finish()
	}
	n := atomic.AddInt64(&procCounter, 1)
	dir := filepath.Join(procScratch(), fmt.Sprintf("shrink-%d-%d", os.Getpid(), n))
	if err := os.MkdirAll(dir, 0o755); err != nil {
		o.Class, o.Msg = "harness", err.Error()
		return finish()
	}
	defer os.RemoveAll(dir)
	var sb strings.Builder
	sb.WriteString("[")
	for i := 0; i < c.Elems; i++ {
		if i > 0 {
			sb.WriteString(",")
		}
		fmt.Fprintf(&sb, "%7d", 1000000+i)
	}
	sb.WriteString("]\n")
	big := filepath.Join(dir, "big.json")
	os.WriteFile(big, []byte(sb.String()), 0o644)
	fifo := filepath.Join(dir, "first.fifo")
	if err := syscall.Mkfifo(fifo, 0o644); err != nil {
		o.Class, o.Msg = "harness", err.Error()
		return finish()
	}
	so, _ := os.Create(filepath.Join(dir, "stdout.txt"))
	se, _ := os.Create(filepath.Join(dir, "stderr.txt"))
	defer so.Close()
	defer se.Close()
	cmd := exec.Command(jqawkBin(), c.Prog, "first.fifo", "big.json")
	cmd.Dir = dir
	dn, _ := os.Open(os.DevNull)
	defer dn.Close()
	cmd.Stdin, cmd.Stdout, cmd.Stderr = dn, so, se
	cmd.Env = []string{"PATH=/usr/bin:/bin", "HOME=" + dir}
	if err := cmd.Start(); err != nil {
		o.Class, o.Msg = "harness", err.Error()
		return finish()
	}
	pid := cmd.Process.Pid
	exited := make(chan error, 1)
	go func() { exited <- cmd.Wait() }()
	deadline := time.Now().Add(60 * time.Second)
	var w *os.File
	done := false
	var werr error
	for w == nil && !done {
		fd, err := syscall.Open(fifo, syscall.O_WRONLY|syscall.O_NONBLOCK, 0)
		if err == nil {
			syscall.SetNonblock(fd, false)
			w = os.NewFile(uintptr(fd), "first.fifo")
			break
		}
		select {
		case werr = <-exited:
			done = true
		default:
		}
		if time.Now().After(deadline) {
			cmd.Process.Kill()
			<-exited
			o.Class, o.Msg = "harness", "the binary never opened the named pipe"
			return finish()
		}
		time.Sleep(200 * time.Microsecond)
	}
	// wait until the binary holds big.json open and waits for the pipe
	holdsBig := func() bool {
		ents, _ := os.ReadDir(fmt.Sprintf("/proc/%d/fd", pid))
		for _, e := range ents {
			if l, err := os.Readlink(fmt.Sprintf("/proc/%d/fd/%s", pid, e.Name())); err == nil && strings.HasSuffix(l, "/big.json") {
				return true
			}
		}
		return false
	}
	for !done {
		_, polling, idle, alive := blockedInRead(pid)
		if alive && idle && polling && holdsBig() {
			break
		}
		select {
		case werr = <-exited:
			done = true
		default:
		}
		if time.Now().After(deadline) {
			break
		}
		time.Sleep(200 * time.Microsecond)
	}
	if !done {
		if err := os.Truncate(big, int64(c.NewSize)); err == nil {
			o.Faults["input_file_truncated_while_open"]++
		}
		log.add('F', 0, "TRUNCATE big.json to %d bytes", c.NewSize)
	}
	if w != nil {
		w.Write([]byte("[1]\n"))
		w.Close()
	}
	if !done {
		select {
		case werr = <-exited:
		case <-time.After(time.Until(deadline)):
			cmd.Process.Kill()
			<-exited
			o.Class, o.Msg = "harness", "binary exceeded the watchdog"
			return finish()
		}
	}
	errb, _ := os.ReadFile(filepath.Join(dir, "stderr.txt"))
	exit, signaled := 0, false
	if ee, ok := werr.(*exec.ExitError); ok {
		exit = ee.ExitCode()
		if ws, ok := ee.Sys().(syscall.WaitStatus); ok && ws.Signaled() {
			signaled = true
		}
	}
	log.add('P', 0, "EXIT status=%d signaled=%v", exit, signaled)
	o.Shape = fmt.Sprintf("shrink|%d|%d|exit=%d", bucketLen(c.Elems), bucketLen(c.NewSize), exit)
	if signaled || crashSignature(string(errb)) {
		o.Class, o.Msg = "process-crash", fmt.Sprintf("the binary died (exit %d, signaled=%v) after big.json was truncated to %d bytes under it: %s", exit, signaled, c.NewSize, truncate(string(errb), 400))
		return finish()
	}
	if exit != 0 && strings.TrimSpace(string(errb)) == "" {
		o.Class, o.Msg = "silent-failure", fmt.Sprintf("exit status %d without a diagnostic", exit)
	}
	return finish()
}

func shrinkWorkload(count map[string]int) *Workload {
	return &Workload{
		Name:  "input-shrinks",
		Count: func(tier string) int { return count[tier] },
		Gen: func(i int, t *Tape, tier string) any {
			elems := []int{100, 5000, 9000, 20000, 70000}[t.Draw(5)]
			size := elems*8 + 2
			return &ShrinkCase{Elems: elems, NewSize: []int{0, 1, 9, size / 2, size - 3, 4096, 65536}[t.Draw(7)] % size, Prog: []string{"{ n++ } END { print n }", "{ print }", "END { print $ }", "BEGINFILE { print $file } { s += $ } ENDFILE { print s }"}[t.Draw(4)]}
		},
		Run:         func(c any, keep bool) Outcome { return runShrinkCase(c.(*ShrinkCase), keep) },
		New:         func() any { return &ShrinkCase{} },
		NoRecheck:   true,
		ShrinkEvals: 20,
	}
}
