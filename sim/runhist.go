package main

// Run-history world (C10): output is a deterministic function of program,
// selectors and input bytes. Two nondeterminism sources exist in the process:
// Go's randomised map iteration (not seedable: out-waited by repetition) and
// process-level mutable state shared by all runs in one process (prototype
// singletons, limit variables). Items are executed (a) repeatedly in one fresh
// process and in several fresh processes, (b) inside seeded histories of other
// items in one process, each compared with the item executed alone as the
// first run of a fresh process, (c) through the real binary under varied
// environments. No process-state reset hook is used in this world.

import (
	"bytes"
	"encoding/json"
	"errors"
	"fmt"
	"io"
	"os"
	"os/exec"
	"sort"
	"strconv"
	"strings"
	"time"

	lang "github.com/alligator/jqawk/src"
)

type Item struct {
	Prog      string      `json:"prog"`
	Selectors []string    `json:"selectors,omitempty"`
	Inputs    []ProgInput `json:"inputs"`
	Fuzzing   bool        `json:"fuzzing,omitempty"` // the library's own fuzzing flag (bounds loops at 10000 iterations)
}

type ItemResult struct {
	Stdout string `json:"stdout"`
	Kind   string `json:"kind"`
	Msg    string `json:"msg"`
	Line   int    `json:"line"`
	Col    int    `json:"col"`
	JSON   string `json:"json"`
	JSONOK bool   `json:"json_ok"`
}

func (r ItemResult) key() string {
	b, _ := json.Marshal(r)
	return string(b)
}

// chunkReader delivers at most n bytes per Read; with eofWithData the last
// bytes and io.EOF arrive in the same call (as io.Reader allows).
type chunkReader struct {
	data        []byte
	n           int
	eofWithData bool
	emptyFirst  bool
	tick        bool
}

func (c *chunkReader) Read(p []byte) (int, error) {
	if len(c.data) == 0 {
		return 0, io.EOF
	}
	if c.emptyFirst {
		// an empty read before every chunk (io.Reader allows 0, nil)
		c.tick = !c.tick
		if c.tick {
			return 0, nil
		}
	}
	if c.eofWithData && len(c.data) <= c.n && len(c.data) <= len(p) {
		k := copy(p, c.data)
		c.data = nil
		return k, io.EOF
	}
	k := c.n
	if k > len(p) {
		k = len(p)
	}
	if k > len(c.data) {
		k = len(c.data)
	}
	copy(p, c.data[:k])
	c.data = c.data[k:]
	return k, nil
}

func runItem(it *Item) ItemResult { return runItemChunked(it, 0) }

// runItemChunked executes the item with its inputs delivered chunk bytes per
// read (0: everything at once): how the bytes arrive is not part of the input.
func runItemChunked(it *Item, chunk int) (r ItemResult) {
	var out bytes.Buffer
	func() {
		defer func() {
			if p := recover(); p != nil {
				r.Kind, r.Msg = "panic", fmt.Sprint(p)
			}
		}()
		files := make([]lang.InputFile, len(it.Inputs))
		for i, in := range it.Inputs {
			if chunk > 100000 {
				files[i] = lang.InputFile{Name: in.Name, Reader: &chunkReader{data: append([]byte(nil), in.Data...), n: chunk - 100000, emptyFirst: true}}
			} else if chunk > 0 {
				files[i] = lang.InputFile{Name: in.Name, Reader: &chunkReader{data: append([]byte(nil), in.Data...), n: chunk}}
			} else if chunk < 0 {
				files[i] = lang.InputFile{Name: in.Name, Reader: &chunkReader{data: append([]byte(nil), in.Data...), n: -chunk, eofWithData: true}}
			} else {
				files[i] = lang.InputFile{Name: in.Name, Reader: bytes.NewReader(in.Data)}
			}
		}
		ev, err := lang.EvalProgram(it.Prog, files, it.Selectors, &out, it.Fuzzing)
		r.Kind, r.Msg = classifyErr(err)
		var se lang.SyntaxError
		var re lang.RuntimeError
		if errors.As(err, &se) {
			r.Line, r.Col = se.Line, se.Col
		} else if errors.As(err, &re) {
			r.Line, r.Col = re.Line, re.Col
		}
		if err == nil && ev != nil {
			if j, jerr := ev.GetRootJson(); jerr == nil {
				r.JSON, r.JSONOK = j, true
			} else {
				r.JSON = "error: " + jerr.Error()
			}
		}
	}()
	r.Stdout = out.String()
	return r
}

type runItemsReq struct {
	Items  []Item `json:"items"`
	Order  []int  `json:"order"`
	Chunks []int  `json:"chunks,omitempty"` // per execution: bytes per read (0: all at once; negative: EOF arrives with the last bytes)
}

// runitemsMain: subprocess entry. Executes the requested sequence in this
// (fresh) process and prints the results.
func runitemsMain() int {
	data, _ := io.ReadAll(os.Stdin)
	var req runItemsReq
	if err := json.Unmarshal(data, &req); err != nil {
		fmt.Fprintln(os.Stderr, err)
		return 2
	}
	res := make([]ItemResult, len(req.Order))
	for i, idx := range req.Order {
		chunk := 0
		if i < len(req.Chunks) {
			chunk = req.Chunks[i]
		}
		res[i] = runItemChunked(&req.Items[idx], chunk)
	}
	out, _ := json.Marshal(res)
	os.Stdout.Write(out)
	return 0
}

func spawnRunItems(req *runItemsReq, env []string) ([]ItemResult, error) {
	data, _ := json.Marshal(req)
	cmd := exec.Command(selfExe(), "runitems")
	cmd.Stdin = bytes.NewReader(data)
	var out bytes.Buffer
	cmd.Stdout = &out
	cmd.Stderr = io.Discard
	if env != nil {
		cmd.Env = append(os.Environ(), env...)
	}
	if err := cmd.Start(); err != nil {
		return nil, err
	}
	timer := time.AfterFunc(120*time.Second, func() { cmd.Process.Kill() })
	err := cmd.Wait()
	if !timer.Stop() {
		return nil, errors.New("runitems subprocess exceeded the watchdog")
	}
	var res []ItemResult
	if jerr := json.Unmarshal(out.Bytes(), &res); jerr != nil {
		if err != nil {
			// the subprocess died: report every slot as a crash observation
			res = make([]ItemResult, len(req.Order))
			for i := range res {
				res[i] = ItemResult{Kind: "process-death", Msg: err.Error()}
			}
			return res, nil
		}
		return nil, jerr
	}
	return res, nil
}

// ---------------------------------------------------------------- cases

type HistCase struct {
	Kind  string `json:"kind"` // history | repeat | binary
	Items []Item `json:"items"`
	Order []int  `json:"order"`            // history: execution order (indices into Items)
	K     int    `json:"k,omitempty"`      // repeat: in-process repetitions
	Fresh int    `json:"fresh,omitempty"`  // repeat: additional fresh processes
	OMode string `json:"o_mode,omitempty"` // binary
}

func runHistCase(c *HistCase, keep bool) Outcome {
	log := newEventLog(keep)
	o := Outcome{Probes: map[string]int{}, Nontrivial: true}
	finish := func() Outcome {
		o.LogHash = log.Hash()
		o.Log = log.lines
		o.Steps = log.seq
		return o
	}
	harness := func(err error) Outcome {
		o.Class, o.Msg = "harness", err.Error()
		return finish()
	}
	switch c.Kind {
	case "repeat":
		it := c.Items[0]
		order := make([]int, c.K)
		// the same bytes, delivered in different ways
		chunks := make([]int, c.K)
		for i := range chunks {
			// negative: that many bytes per read, io.EOF together with the last ones
			// above 100000: that many bytes (less 100000) per read, an empty read before each
			chunks[i] = []int{0, 1, -(1 << 20), 2, 3, -2, 7, 64, 100001, 0, 100002, 1, 100005, -1, 2, 100001}[i%16]
		}
		same, err := spawnRunItems(&runItemsReq{Items: c.Items, Order: order, Chunks: chunks}, nil)
		if err != nil {
			return harness(err)
		}
		all := append([]ItemResult(nil), same...)
		for f := 0; f < c.Fresh; f++ {
			env := []string{fmt.Sprintf("GOMAXPROCS=%d", 1+f*5)}
			r, err := spawnRunItems(&runItemsReq{Items: c.Items, Order: []int{0}}, env)
			if err != nil {
				return harness(err)
			}
			all = append(all, r...)
		}
		distinct := map[string]int{}
		for i, r := range all {
			distinct[r.key()]++
			_ = i
		}
		// the event log records the number of distinct results, not their
		// content: under a violation the content is by nature not repeatable
		log.add('H', 'r', "REPEAT executions=%d distinct=%d", len(all), len(distinct))
		o.Shape = "repeat:" + shapeOfItem(&it)
		o.Probes["executions"] += len(all)
		if strings.Contains(all[0].Stdout, "\": ") && strings.Count(all[0].Stdout, "\": ") >= 2 {
			o.Probes["multi_key_object_printed"]++
		}
		if len(distinct) > 1 {
			keys := make([]string, 0, len(distinct))
			for k := range distinct {
				keys = append(keys, k)
			}
			sort.Strings(keys)
			o.Class = "nondeterministic-output"
			o.Msg = fmt.Sprintf("%d executions of the same program and input gave %d different results, e.g.\n%s\n%s", len(all), len(distinct), truncate(keys[0], 500), truncate(keys[1], 500))
		}
		return finish()
	case "history":
		// references: each distinct item alone, first run of a fresh process
		refs := make([]ItemResult, len(c.Items))
		for i := range c.Items {
			r, err := spawnRunItems(&runItemsReq{Items: c.Items, Order: []int{i}}, nil)
			if err != nil {
				return harness(err)
			}
			refs[i] = r[0]
		}
		got, err := spawnRunItems(&runItemsReq{Items: c.Items, Order: c.Order}, nil)
		if err != nil {
			return harness(err)
		}
		bad := -1
		for pos, idx := range c.Order {
			if got[pos].key() != refs[idx].key() {
				bad = pos
				break
			}
		}
		log.add('H', 'h', "HISTORY len=%d distinct_items=%d first_divergence=%d", len(c.Order), len(c.Items), bad)
		o.Shape = fmt.Sprintf("history:%d:%d", len(c.Items), len(c.Order)/8)
		for i := range c.Items {
			o.Shape += ":" + shapeOfItem(&c.Items[i])
		}
		o.Probes["history_executions"] += len(c.Order)
		for _, r := range refs {
			o.Probes["ref_"+r.Kind]++
		}
		if bad >= 0 {
			idx := c.Order[bad]
			o.Class = "history-dependence"
			o.Msg = fmt.Sprintf("execution #%d of the history (item %d) differs from the same item run alone in a fresh process\n--- alone ---\n%s\n--- in history ---\n%s", bad, idx, truncate(refs[idx].key(), 600), truncate(got[bad].key(), 600))
		}
		return finish()
	case "binary":
		it := c.Items[0]
		var results []string
		for v, env := range [][]string{nil, {"TZ=Asia/Tokyo", "GOMAXPROCS=1"}, {"LANG=tr_TR.UTF-8", "LC_ALL=tr_TR.UTF-8", "GOMAXPROCS=16", "GOGC=1"}} {
			pc := &ProcCase{Prog: it.Prog, Selectors: it.Selectors, OMode: c.OMode, Env: env, Extra: v}
			for _, in := range it.Inputs {
				pc.Inputs = append(pc.Inputs, ProcFile{Name: in.Name, Data: in.Data, Kind: "regular"})
			}
			if len(pc.Inputs) > 1 && pc.OMode != "" {
				pc.OMode = ""
			}
			res, err := runBinary(pc, "")
			if err != nil {
				return harness(err)
			}
			results = append(results, fmt.Sprintf("exit=%d stdout=%q ofile=%q stderr=%q", res.exit, res.stdout, res.ofile, res.stderr))
		}
		distinct := map[string]bool{}
		for _, r := range results {
			distinct[r] = true
		}
		log.add('H', 'b', "BINARY executions=%d distinct=%d", len(results), len(distinct))
		o.Shape = "binary:" + shapeOfItem(&it)
		if len(distinct) == 1 && (c.OMode == "file" || c.OMode == "existing") && len(it.Inputs) == 1 {
			// what -o FILE holds afterwards does not depend on what the path held before
			other := map[string]string{"file": "existing", "existing": "file"}[c.OMode]
			var two []string
			for _, om := range []string{c.OMode, other} {
				pc := &ProcCase{Prog: it.Prog, Selectors: it.Selectors, OMode: om}
				for _, in := range it.Inputs {
					pc.Inputs = append(pc.Inputs, ProcFile{Name: in.Name, Data: in.Data, Kind: "regular"})
				}
				res, err := runBinary(pc, "")
				if err != nil {
					return harness(err)
				}
				if res.exit != 0 {
					// a failed run writes nothing: what the path held before is then all there is
					two = nil
					break
				}
				two = append(two, fmt.Sprintf("exit=%d ofile=%v:%q", res.exit, res.ofileOK, res.ofile))
			}
			o.Probes["o_file_fresh_vs_existing"]++
			if len(two) == 2 && two[0] != two[1] {
				o.Class = "nondeterministic-binary"
				o.Msg = fmt.Sprintf("-o FILE holds different bytes depending on whether the path existed before (%s vs %s):\n%s\n%s", c.OMode, other, truncate(two[0], 500), truncate(two[1], 500))
				return finish()
			}
		}
		if len(distinct) == 1 && len(it.Inputs) == 1 {
			// the same bytes on standard input, behind three kinds of descriptor
			var viaStdin []string
			modes := []string{"", "offset", "pipe"}
			for _, mode := range modes {
				pc := &ProcCase{Prog: it.Prog, Selectors: it.Selectors, OMode: c.OMode, Stdin: it.Inputs[0].Data, StdinMode: mode}
				res, err := runBinary(pc, "")
				if err != nil {
					return harness(err)
				}
				viaStdin = append(viaStdin, fmt.Sprintf("exit=%d stdout=%q ofile=%q stderr=%q", res.exit, res.stdout, res.ofile, res.stderr))
			}
			o.Probes["stdin_deliveries"] += len(modes)
			for i, r := range viaStdin[1:] {
				if r != viaStdin[0] {
					o.Class = "nondeterministic-binary"
					o.Msg = fmt.Sprintf("the binary gave different results for the same bytes on standard input (a regular file at offset 0 vs %q):\n%s\n%s", modes[i+1], truncate(viaStdin[0], 500), truncate(r, 500))
					return finish()
				}
			}
		}
		if len(distinct) > 1 {
			o.Class = "nondeterministic-binary"
			o.Msg = fmt.Sprintf("the binary gave different results for the same command line under different environments:\n%s\n%s", truncate(results[0], 500), truncate(results[1], 500))
			for _, r := range results[1:] {
				if r != results[0] {
					o.Msg = fmt.Sprintf("the binary gave different results for the same command line under different environments:\n%s\n%s", truncate(results[0], 500), truncate(r, 500))
				}
			}
		}
		return finish()
	}
	o.Class, o.Msg = "harness", "unknown hist case kind"
	return finish()
}

func shapeOfItem(it *Item) string {
	// coarse shape: program text with digits and string contents removed
	return fmt.Sprintf("%x", hashStr(shapeOfMsg(it.Prog)+fmt.Sprint(len(it.Selectors), len(it.Inputs))))
}

// ---------------------------------------------------------------- item generator

// never a method name of any prototype: assigning such a member is known finding K3
var histKeys = []string{"alpha", "beta", "gamma", "delta", "eps", "zeta", "eta", "theta", "iota", "kappa", "lam", "mu", "nu", "xi"}

// keys that look alike under some orderings: equal as numbers, equal ignoring
// case, equal up to length, prefixes of each other
var histTieKeys = []string{"1", "1.0", "01", "1e0", "10", "9", "a", "A", "ab", "aB", "Ab", " a", "a ", "é", "e", "", "-1", "-01", "0", "-0", "00", "x1", "x01", "x10", "x9"}

func genObjText(t *Tape, minKeys, maxKeys int, nest bool) string {
	return genObjTextS(t, minKeys, maxKeys, nest, false)
}

// histStrPieces: string contents of input documents (JSON text only): escapes,
// and text that looks like comments, separators or structure
var histStrPieces = []string{`\"`, `\\`, `\/`, "//", "/* c */", "http://h.example/p?q=1", "# x", `\u0041`, `\n`, `\t`, "é", "😀", "]", "}", ",", ":", " ", "a"}

func genObjTextS(t *Tape, minKeys, maxKeys int, nest bool, richStr bool) string {
	n := minKeys + t.Draw(maxKeys-minKeys+1)
	perm := append([]string(nil), histKeys...)
	if t.Chance(1, 4) {
		perm = append([]string(nil), histTieKeys...)
	}
	// seeded shuffle
	for i := len(perm) - 1; i > 0; i-- {
		j := t.Draw(i + 1)
		perm[i], perm[j] = perm[j], perm[i]
	}
	parts := make([]string, n)
	for i := 0; i < n; i++ {
		var v string
		switch t.Weighted(4, 3, 1, 1) {
		case 0:
			v = fmt.Sprint(t.Draw(100))
		case 1:
			v = fmt.Sprintf("\"s%d\"", t.Draw(100))
			if richStr && t.Chance(1, 2) {
				var sb strings.Builder
				for k := 1 + t.Draw(4); k > 0; k-- {
					sb.WriteString(histStrPieces[t.Draw(len(histStrPieces))])
				}
				v = v[:len(v)-1] + sb.String() + "\""
			}
		case 2:
			v = []string{"true", "false", "null"}[t.Draw(3)]
		default:
			if nest {
				v = genObjTextS(t, 2, 4, false, richStr)
			} else {
				v = "[1, 2]"
			}
		}
		parts[i] = fmt.Sprintf("\"%s\": %s", perm[i], v)
	}
	return "{" + strings.Join(parts, ", ") + "}"
}

func objLiteral(t *Tape, minKeys, maxKeys int) string {
	// a jqawk object literal with the same key pool
	s := genObjText(t, minKeys, maxKeys, true)
	return s // JSON object syntax is valid jqawk object-literal syntax
}

// genHeavyItem: a run that consumes a lot of one resource and ends normally
// (or in the corresponding limit error).
func genHeavyItem(t *Tape) Item {
	it := Item{Inputs: []ProgInput{{Name: "in.json", Data: QBytes("[1, 2, 3]")}}}
	switch t.Draw(8) {
	case 6, 7:
		// hundreds of distinct patterns compiled in one run
		it.Prog = fmt.Sprintf("BEGIN { for (i = 0; i < %d; i++) { if (\"p7\" ~ (\"^p\" + i + \"$\")) { c++ }\n if (\"alpha\" !~ (\"a\" + i)) { d++ } }\n print c, d }", 150+t.Draw(1200))
	case 0:
		// about a million array slots filled by assignments past the end
		it.Prog = fmt.Sprintf("BEGIN { for (i = 0; i < 8; i++) { a = []\n a[%d + i] = i }\n print a.length() }", 100000+t.Draw(60000))
	case 1:
		it.Prog = fmt.Sprintf("BEGIN { a = []\n a[%d] = 1\n print a.length(), a[-1] }", 900000+t.Draw(148000))
	case 2:
		it.Prog = fmt.Sprintf("BEGIN { for (i = 0; i < %d; i++) { s += i }\n print s }", 100000+t.Draw(200000))
	case 3:
		it.Prog = fmt.Sprintf("function r(n) { if (n == 0) { return 0 }\n return 1 + r(n - 1) }\nBEGIN { for (i = 0; i < 6; i++) { t += r(%d) }\n print t }", 500+t.Draw(1500))
	case 4:
		it.Prog = fmt.Sprintf("BEGIN { o = {}\n for (i = 0; i < %d; i++) { o[\"k\" + i] = [i] }\n print o.length() }", 20000+t.Draw(60000))
	default:
		it.Prog = fmt.Sprintf("BEGIN { s = \"x\"\n for (i = 0; i < %d; i++) { s = s + s }\n print s.length() }\n{ a = []\n a[300000] = $\n print a.length() }", 18+t.Draw(5))
	}
	return it
}

func genItem(t *Tape) Item { return genItemOfKind(t, -1) }

const histItemKinds = 25

// genItemOfKind: kind >= 0 forces the program family (themed histories run
// several different items of one family in one process: whatever that family
// caches or keeps between runs is hit from several sides)
func genItemOfKind(t *Tape, kind int) Item {
	it := Item{}
	doc := func() string {
		switch t.Weighted(4, 3, 2) {
		case 0:
			n := 1 + t.Draw(3)
			parts := make([]string, n)
			for i := range parts {
				parts[i] = genObjTextS(t, 5, 8, true, true)
			}
			return "[" + strings.Join(parts, ", ") + "]"
		case 1:
			return genObjTextS(t, 6, 8, true, true)
		default:
			return genObjTextS(t, 6, 8, false, true) + "\n" + genObjTextS(t, 2, 8, true, true)
		}
	}
	it.Inputs = []ProgInput{{Name: "in.json", Data: QBytes(doc())}}
	switch t.Weighted(12, 1, 1, 1, 1) {
	case 4:
		// a number no float64 holds, with more lines behind it: the same error, worded the same, however the bytes arrive
		it.Inputs[0].Data = append(it.Inputs[0].Data, []byte("\n[1,\n 2]\n1e999\n{\"a\": 1}\n[2,\n3]\n\n[4]\n")...)
	case 1:
		// a byte order mark in front: an error, however the bytes arrive
		it.Inputs[0].Data = append(QBytes("\xef\xbb\xbf"), it.Inputs[0].Data...)
	case 2:
		it.Inputs[0].Data = append(QBytes(" \n\t"), it.Inputs[0].Data...)
	case 3:
		it.Inputs[0].Data = append(it.Inputs[0].Data, []byte("\n12 \"tail\" null")...)
	}
	if t.Chance(1, 6) {
		it.Inputs = append(it.Inputs, ProgInput{Name: "in2.json", Data: QBytes(doc())})
	}
	k1, k2 := histKeys[t.Draw(len(histKeys))], histKeys[t.Draw(len(histKeys))]
	family := t.Weighted(5, 5, 3, 3, 3, 2, 2, 2, 2, 2, 2, 1, 1, 4, 2, 3, 2, 4, 3, 3, 5, 3, 4, 3, 3)
	if kind >= 0 {
		family = kind % histItemKinds
	}
	switch family {
	case 24:
		// root selectors that print, over several documents, with rules that print
		// too: the order of the lines is part of the output however the bytes arrive
		it.Inputs = []ProgInput{{Name: "in.json", Data: QBytes(doc() + "\n" + doc() + " " + doc())}}
		it.Selectors = [][]string{
			{"[printf(\"sel %s\\n\", $ is array), $][1]"},
			{"match ($) { sv => { print \"selecting\" } }", "$"},
			{"$", "[printf(\"second selector\\n\"), $][1]"},
		}[t.Draw(3)]
		it.Prog = "BEGINFILE { print \"bf\" }\n{ print \"item\", $ is object }\nENDFILE { print \"ef\" }"
		if t.Chance(1, 3) {
			// a large document (thousands of values) under two selectors with effects
			var sb strings.Builder
			sb.WriteString("{\"xs\": [")
			for i := 0; i < 2600+t.Draw(2000); i++ {
				if i > 0 {
					sb.WriteString(",")
				}
				sb.WriteString(strconv.Itoa(i))
			}
			sb.WriteString("], \"ys\": [1, 2, 3]}")
			it.Inputs = []ProgInput{{Name: "in.json", Data: QBytes(sb.String())}}
			it.Selectors = [][]string{
				{"match ($.ys) { sv => { print \"selector one\", sv } }", "match ($.ys) { sw => { print \"selector two\", sw } }"},
				{"[printf(\"first %s\\n\", $.ys.length()), $.ys][1]", "[printf(\"second %s\\n\", $.ys.length()), $.ys][1]", "$.ys"},
				{"match (1) { 1 => { print \"one, then stop\"\n exit } }", "match (1) { 1 => { print \"two must not run\" } }"},
			}[t.Draw(3)]
			it.Prog = "{ n++ }\nEND { print \"done\", n }"
		}
	case 13:
		// regular expressions: literal and string forms, patterns that share
		// prefixes and lengths (a process-level cache keyed too coarsely shows here)
		pats := []string{"^al", "^alp", "^alpha$", "a$", "a$|u$", "eta", "eta$", "^(be|ga)", "^(be|ga|de)", "^.a", "^.e", "^...$", "^....$", "[aeiou]{2}", "[aeiou]t", "^[a-m]", "^[n-z]", "mu|nu", "mu|xi"}
		p1, p2 := pats[t.Draw(len(pats))], pats[t.Draw(len(pats))]
		it.Prog = fmt.Sprintf("{ for (k, v in $) { if (k ~ /%s/) { print \"m1\", k }\n if (k !~ \"%s\") { print \"n2\", k } } }", p1, p2)
	case 23:
		// values that cannot be serialised for more than one reason at once: the reported reason is part of the outcome
		it.Prog = []string{
			"BEGIN { o = {}\n o.alpha = o\n o.beta = /x/\n o.gamma = 1\n print json(o) }",
			"{ $.zz = /re/\n $.aa = $\n $.mm = [/q/] }",
			"BEGIN { o = {}\n o.b = [o]\n o.a = {r: /x/}\n o.c = o\n print json([o]) }",
		}[t.Draw(3)]
	case 21:
		// pattern forms that are errors today must be the same error every time
		it.Inputs = []ProgInput{{Name: "in.json", Data: QBytes(`{"alpha": 1, "beta": 2, "gamma": 3} {"alpha": [1], "beta": 2} {"alpha": 1, "beta": {"x": 1, "y": [1]}}`)}}
		it.Prog = []string{
			"{ print match ($) { {alpha: 1, beta: mb} => mb, mo => \"other\" } }",
			"{ print match ($) { {alpha: mv, beta: mv, gamma: mv} => mv, {alpha: mv, beta: mv} => mv, mo => \"other\" } }",
			"{ for (k, v in $) { print match (v) { {x: 1, y: [1]} => \"o\", 5 => \"five\", mq => k } } }",
			"{ print match ($) { {alpha: 2, beta: 3} => \"no\", {alpha: 1, beta: 3} => \"no2\", mo => \"other\" } }",
		}[t.Draw(4)]
	case 22:
		// root selectors that keep state or have effects: every evaluation starts from scratch
		it.Selectors = [][]string{
			{"$[sn++]", "$[sn++]"},
			{"match (calls = calls + 1) { 1 => $.alpha, mc => $.beta }", "match (calls = calls + 1) { 1 => $.alpha, mc => $.beta }"},
			{"[seen++, $]"},
			{"{count: n++, doc: $}", "n"},
		}[t.Draw(4)]
		it.Prog = "{ print }\nENDFILE { print \"ef\" }"
	case 20:
		// zeros of both signs, numbers that print alike, values that only differ in representation
		it.Inputs = []ProgInput{{Name: "in.json", Data: QBytes(`[{"z": 0, "nz": -0, "h": 0.2, "nh": -0.2, "one": 1, "onef": 1.0, "big": 1e21, "tiny": 1e-7}]`)}}
		it.Prog = []string{
			"{ print $.z, $.nz, -$.z, -$.nz, $.h.round(), $.nh.round(), $.nh.ceil(), 0 * -1 }",
			"{ o = {}\n o[$.nz] = \"neg\"\n o[$.z] = \"pos\"\n print o, $.nz + \"\", $.z + \"\" }",
			"{ print $.nh.round(), $.h.round() }\nEND { print -0, 0, 1 - 1, -1 + 1 }",
			"{ print $.one, $.onef, $.big, $.tiny, $.one == $.onef }\nEND { x[-0] = 1\n x[0] = 2\n print x }",
			"{ print $.z }",
			"{ print $.nz }",
		}[t.Draw(6)]
	case 18:
		// object literals with repeated keys and values whose evaluation order shows
		it.Prog = []string{
			"BEGIN { n = 0\n o = {a: n++, b: n++, a: n++, c: n++, d: n++}\n print o, n }",
			"function say(x) { print \"eval\", x\n return x }\n{ o = {k: say(1), m: say(2), k: say(3), z: say(4)}\n print o }",
			"{ o = {\"x\": $.alpha, \"y\": c++, \"x\": c++, \"w\": c++}\n print o, c }",
		}[t.Draw(3)]
	case 19:
		// loops far beyond ten thousand iterations (the fuzzing mode of an earlier, unrelated run bounds loops)
		it.Prog = []string{
			"BEGIN { for (i = 0; i < 10050; i++) { n++ }\n print n }",
			"{ i = 0\n while (i < 12000) { i++ }\n print i }",
		}[t.Draw(2)]
	case 17:
		// programs that use the names of built-in functions as ordinary variables,
		// and programs that rely on those built-ins
		it.Prog = []string{
			"{ num = 5\n print num }",
			"{ for (json in $) { print json } }",
			"BEGIN { printf++\n print printf }",
			"{ print num(\"12\"), json([1]), num(\"x\") }\nEND { printf(\"%s\\n\", \"end\") }",
			"function num2(v) { return num(v) }\n{ print num2(\"7\") }",
			"{ json = 1\n num = 2\n printf = 3\n print json + num + printf }",
		}[t.Draw(6)]
	case 15:
		// printf that fails part-way through its format (at the first non-number value), after earlier successes
		it.Prog = "{ for (k, v in $) { printf(\"%s=%f;\\n\", k, v) } }\nEND { printf(\"done %s\\n\", \"x\") }"
	case 16:
		// every printf error kind after some formatted text
		it.Prog = []string{
			"{ printf(\"a=%s b=%s\\n\", \"x\") }",
			"{ printf(\"head %q tail\\n\", 1) }",
			"{ printf(\"width %99999999s\\n\", \"x\") }",
			"{ printf(\"dangling %\") }",
			"BEGIN { printf(\"ok %s\\n\", \"fine\") }\n{ printf(\"n=%f\\n\", \"notnum\") }",
		}[t.Draw(5)]
	case 14:
		// number / string method results and printf through every prototype
		it.Prog = fmt.Sprintf("{ for (k, v in $) { if (v is number) { printf(\"%%s=%%f|%%5f|%%-5f|\\n\", k, v, v / 3, v.floor()) }\n if (v is string) { print v.upper(), v.length(), v.split(\"s\") } } }")
	case 0:
		it.Prog = "{ print }"
	case 1:
		it.Prog = "{ for (k, v in $) { print k, v } }"
	case 2:
		it.Prog = "{ print json($) }\nEND { print \"done\" }"
	case 3:
		it.Prog = "BEGIN { o = " + objLiteral(t, 6, 8) + "\n print o\n for (k in o) { acc = acc + k + \",\" }\n print acc }"
	case 4:
		it.Prog = fmt.Sprintf("{ $.%s = $index\n $.%s.%s = 1\n print $ }", k1, k2, k1)
	case 5:
		it.Prog = fmt.Sprintf("{ p = $.pluck(\"%s\", \"%s\", \"%s\")\n print p, p.length(), $.length() }", k1, k2, histKeys[t.Draw(len(histKeys))])
	case 6:
		it.Prog = "{ printf(\"%v|%s\\n\", $, \"x\") }"
	case 7:
		it.Prog = "BEGIN { s = \"aBc,dE\"\n print s.upper(), s.lower(), s.split(\",\"), s.length()\n a = [3, 1, 2]\n print a.sort(), a.length(), a.contains(2), a.pop(), a.popfirst(), a.push(9)\n n = 2.5\n print n.floor(), n.ceil(), n.round() }\n{ for (k, v in $) { if (k ~ /a$/) { print k } } }"
	case 8:
		// runs ending in each error kind
		switch t.Draw(4) {
		case 0:
			it.Prog = fmt.Sprintf("{ print $\n c++\n if (c == %d) { print 1 / (c - c) } }", 1+t.Draw(2))
		case 1:
			it.Prog = "{ print $ }\nEND { print ( }"
		case 2:
			it.Inputs[0].Data = append(it.Inputs[0].Data, []byte(" {\"a\":")...)
			it.Prog = "{ print }"
		default:
			it.Prog = "{ for (k, v in $) { if (v ~ \"(\") { print k } } }"
		}
	case 9:
		// limits
		switch t.Draw(3) {
		case 0:
			it.Prog = "function f(n) { return f(n + 1) }\n{ print $\n f(0) }"
		case 1:
			it.Prog = "function f(n) { if (n == 0) { return 0 }\n return 1 + f(n - 1) }\n{ print f(3000), $ }"
		default:
			it.Prog = "{ a = []\n a[5] = 1\n print a\n a[2000000] = 1 }"
		}
	case 10:
		it.Prog = fmt.Sprintf("{ for (k, v in $) { seen[k]++ } }\nEND { print seen\n for (k, v in seen) { print k, v } }")
	case 11:
		it.Selectors = []string{"$", fmt.Sprintf("$.%s", k1)}
		it.Prog = "{ print }\nENDFILE { print \"ef\" }"
	default:
		it.Prog = "BEGIN { x = {}\n x.b = 1\n x.a = 2\n x.self = x\n print x\n arr = []\n arr[3] = " + objLiteral(t, 3, 5) + "\n print arr\n print json(arr) }"
	}
	// an embedder (or the project's own fuzz targets) may run with the fuzzing flag
	if t.Chance(1, 8) {
		it.Fuzzing = true
	}
	return it
}

func registerC10() {
	hist := &Workload{
		Name:  "histories",
		Count: func(tier string) int { return map[string]int{"quick": 400, "thorough": 30000}[tier] },
		Gen: func(i int, t *Tape, tier string) any {
			c := &HistCase{Kind: "history"}
			n := 3 + t.Draw(6)
			theme := -1
			if t.Chance(1, 3) {
				theme = t.Draw(histItemKinds)
			}
			for k := 0; k < n; k++ {
				if theme >= 0 && t.Chance(3, 4) {
					c.Items = append(c.Items, genItemOfKind(t, theme))
				} else {
					c.Items = append(c.Items, genItem(t))
				}
			}
			m := 10 + t.Draw(51)
			heavy := -1
			if t.Chance(1, 7) {
				// a resource-heavy item that dominates the history: whatever a run
				// consumes (cells, frames, steps, output) is given back when it ends
				heavy = t.Draw(n)
				c.Items[heavy] = genHeavyItem(t)
			}
			for k := 0; k < m; k++ {
				if heavy >= 0 && t.Chance(1, 2) {
					c.Order = append(c.Order, heavy)
				} else {
					c.Order = append(c.Order, t.Draw(n))
				}
			}
			return c
		},
		Run:         func(c any, keep bool) Outcome { return runHistCase(c.(*HistCase), keep) },
		New:         func() any { return &HistCase{} },
		NoRecheck:   true,
		ShrinkEvals: 120,
		Simplify:    simplifyHist,
	}
	repeat := &Workload{
		Name:  "repeat",
		Count: func(tier string) int { return map[string]int{"quick": 700, "thorough": 60000}[tier] },
		Gen: func(i int, t *Tape, tier string) any {
			return &HistCase{Kind: "repeat", Items: []Item{genItem(t)}, K: 16, Fresh: 4}
		},
		Run:         func(c any, keep bool) Outcome { return runHistCase(c.(*HistCase), keep) },
		New:         func() any { return &HistCase{} },
		NoRecheck:   true,
		ShrinkEvals: 120,
	}
	binary := &Workload{
		Name:  "binary-env",
		Count: func(tier string) int { return map[string]int{"quick": 300, "thorough": 20000}[tier] },
		Gen: func(i int, t *Tape, tier string) any {
			return &HistCase{Kind: "binary", Items: []Item{genItem(t)}, OMode: []string{"", "-", "file", "existing"}[t.Draw(4)]}
		},
		Run:         func(c any, keep bool) Outcome { return runHistCase(c.(*HistCase), keep) },
		New:         func() any { return &HistCase{} },
		NoRecheck:   true,
		ShrinkEvals: 120,
	}
	register(&Property{
		ID:    "C10",
		Level: "exploration",
		Rule:  "seeded items (program, selectors, input) that print, iterate, serialise and mutate objects with 5-8 keys, use every prototype, end in every error kind and hit the limits; (repeat) each item executed 16 times in one fresh process and once in each of 4 further fresh processes, all results byte-identical; (histories) seeded sequences of 10-60 executions over 3-8 distinct items in one fresh process, each execution compared with the item run alone as the first run of a fresh process; (binary-env) the real binary three times under different cwd contents, TZ, LANG, GOMAXPROCS, GOGC. Result = stdout bytes, root JSON, error kind, message, line and column. Distinct = distinct program-text shape (history: tuple of them); non-trivial = every executed case.",
		Assumptions: []string{
			"Go's map iteration order cannot be seeded; an order dependence on an object with n>=5 keys survives 20 executions with probability well below 1e-6 per item, and there are hundreds of items (DESIGN.md 5.10)",
			"replaying a nondeterminism violation reproduces it with overwhelming probability, not certainty: the scheduler being replayed is the Go runtime's",
			"members named like a prototype method are never assigned (known finding K3 for C09)",
		},
		Components: map[string][]string{
			"real":      {"lang.EvalProgram + GetRootJson in fresh OS processes (no reset hook)", "the jqawk binary", "Go runtime incl. its randomised map iteration"},
			"simulated": {"the sequence of runs inside one process (seeded histories)", "process restarts (fresh subprocess per reference)", "environment of the binary"},
			"stubbed":   {},
		},
		Workloads: []*Workload{repeat, hist, binary},
	})
}
