package main

// Harness self-tests (not part of any verdict):
//  1. jsonref agrees with encoding/json on how many values a byte stream
//     holds before its first defect, for seeded valid and faulted streams;
//  2. determinism: for every workload, the event-log hashes of cases 0..n-1
//     are identical across processes started with GOMAXPROCS 1, 4 and 16 and
//     across two executions in the same process;
//  3. the tape shrinker minimises a synthetic failing predicate.

import (
	"bytes"
	"encoding/json"
	"fmt"
	"io"
	"os"
	"os/exec"
	"strconv"
	"strings"
)

func goDecodeCount(data []byte) (int, bool) {
	d := json.NewDecoder(bytes.NewReader(data))
	n := 0
	for {
		var v any
		err := d.Decode(&v)
		if err == io.EOF {
			return n, true
		}
		if err != nil {
			return n, false
		}
		n++
	}
}

func selftestJsonref(n int) int {
	bad := 0
	dub := 0
	for i := 0; i < n; i++ {
		t := NewTape(DeriveSeed(7, "selftest-jsonref", strconv.Itoa(i)))
		c := genStreamCase(t, streamGenOpts{mode: "c03", maxFiles: 2, maxVals: 5, selectors: true, faults: []string{"TRUNC", "CORRUPT", "STRAY"}, faultProb: 70, sigProb: 0})
		for fi := range c.Files {
			data, _ := c.Visible(fi)
			ref := ScanStream(data)
			if ref.Dubious {
				dub++
				continue
			}
			cnt, clean := goDecodeCount(data)
			if cnt != len(ref.Values) || clean != (ref.Status == RefClean) {
				bad++
				if bad <= 5 {
					fmt.Printf("jsonref disagreement on %q: jsonref %d values status %d, encoding/json %d values clean=%v\n", data, len(ref.Values), ref.Status, cnt, clean)
				}
			}
		}
	}
	// fully random bytes from a JSON-ish alphabet
	alpha := []byte("[]{}:,\"\\ 0123456789.-+eEtruefalsn\n\tx\x00\xff")
	for i := 0; i < n; i++ {
		t := NewTape(DeriveSeed(7, "selftest-jsonref-rand", strconv.Itoa(i)))
		l := t.Draw(24)
		data := make([]byte, l)
		for k := range data {
			data[k] = alpha[t.Draw(len(alpha))]
		}
		ref := ScanStream(data)
		if ref.Dubious {
			dub++
			continue
		}
		cnt, clean := goDecodeCount(data)
		if cnt != len(ref.Values) || clean != (ref.Status == RefClean) {
			bad++
			if bad <= 10 {
				fmt.Printf("jsonref disagreement on %q: jsonref %d values status %d, encoding/json %d values clean=%v\n", data, len(ref.Values), ref.Status, cnt, clean)
			}
		}
	}
	fmt.Printf("selftest jsonref: %d streams, %d disagreements, %d skipped as unspecified\n", 2*n, bad, dub)
	return bad
}

// hashesMain prints the outcome hash of cases lo..hi-1 of a workload.
func hashesMain(args []string) int {
	prop := registry[args[0]]
	w := prop.workload(args[1])
	lo, _ := strconv.Atoi(args[2])
	hi, _ := strconv.Atoi(args[3])
	seed := seedFromEnv()
	var sb strings.Builder
	for i := lo; i < hi; i++ {
		c := w.Gen(i, caseTape(seed, prop.ID, w, i), "quick")
		o := w.Run(c, false)
		c2 := w.Gen(i, caseTape(seed, prop.ID, w, i), "quick")
		o2 := w.Run(c2, false)
		if o.LogHash != o2.LogHash || o.Class != o2.Class {
			fmt.Fprintf(&sb, "%d SAME-PROCESS-MISMATCH\n", i)
			continue
		}
		fmt.Fprintf(&sb, "%d %s %s\n", i, o.LogHash, o.Class)
	}
	os.Stdout.WriteString(sb.String())
	return 0
}

func selftestDeterminism(n int) int {
	bad := 0
	for _, pid := range []string{"C01", "C02", "C03", "C08", "C09", "C14", "C15"} {
		prop := registry[pid]
		for _, w := range prop.Workloads {
			if w.Isolated || w.NoRecheck {
				continue
			}
			cnt := n
			if c := w.Count("quick"); c < cnt {
				cnt = c
			}
			if pid == "C14" || w.Name == "process" || w.Name == "long-histories" {
				if cnt > 60 {
					cnt = 60
				}
			}
			var outs []string
			// 4 processes per GOMAXPROCS value, each a quarter of the range
			for _, gmp := range []string{"1", "4", "16"} {
				var all strings.Builder
				for part := 0; part < 4; part++ {
					lo, hi := part*cnt/4, (part+1)*cnt/4
					cmd := exec.Command(selfExe(), "hashes", pid, w.Name, strconv.Itoa(lo), strconv.Itoa(hi))
					cmd.Env = append(os.Environ(), "GOMAXPROCS="+gmp)
					out, err := cmd.Output()
					if err != nil {
						fmt.Printf("selftest determinism: %s/%s failed: %v\n", pid, w.Name, err)
						bad++
					}
					all.Write(out)
				}
				outs = append(outs, all.String())
			}
			ok := outs[0] == outs[1] && outs[1] == outs[2] && !strings.Contains(outs[0], "MISMATCH")
			if !ok {
				bad++
				a, b := strings.Split(outs[0], "\n"), strings.Split(outs[2], "\n")
				for i := range a {
					if i < len(b) && a[i] != b[i] {
						fmt.Printf("  first difference: %q vs %q\n", a[i], b[i])
						break
					}
				}
				for _, l := range a {
					if strings.Contains(l, "MISMATCH") {
						fmt.Printf("  %s\n", l)
						break
					}
				}
			}
			fmt.Printf("selftest determinism: %s/%-16s %5d cases x 3 GOMAXPROCS values x 2 executions: %v\n", pid, w.Name, cnt, map[bool]string{true: "identical", false: "DIFFER"}[ok])
		}
	}
	return bad
}

func selftestShrinker() int {
	// fails iff the tape contains a value >= 7 followed later by a value >= 3
	fails := func(tp []uint32) bool {
		seen := false
		for _, v := range tp {
			if seen && v >= 3 {
				return true
			}
			if v >= 7 {
				seen = true
			}
		}
		return false
	}
	t := NewTape(99)
	tape := make([]uint32, 5000)
	for i := range tape {
		tape[i] = uint32(t.Draw(10))
	}
	min, evals := ShrinkTape(tape, fails, 3000)
	ok := fails(min) && len(min) == 2 && min[0] == 7 && min[1] == 3
	fmt.Printf("selftest shrinker: 5000 draws -> %v in %d evaluations: %v\n", min, evals, ok)
	if !ok {
		return 1
	}
	return 0
}

func selftestMain(args []string) int {
	n := 4000
	if len(args) > 0 {
		if v, err := strconv.Atoi(args[0]); err == nil {
			n = v
		}
	}
	bad := selftestShrinker()
	bad += selftestJsonref(n * 10)
	bad += selftestDeterminism(n)
	if bad > 0 {
		fmt.Println("SELFTEST FAILED")
		return 2
	}
	fmt.Println("selftest ok")
	return 0
}

// gen <P> <workload> <tier> <index>: print the materialised case (debug aid)
func genMain(args []string) int {
	if len(args) < 4 {
		fmt.Fprintln(os.Stderr, "usage: gen <P> <workload> <tier> <index>")
		return 2
	}
	prop := registry[args[0]]
	w := prop.workload(args[1])
	var i int
	fmt.Sscan(args[3], &i)
	t := caseTape(seedFromEnv(), prop.ID, w, i)
	c := w.Gen(i, t, args[2])
	cj, _ := json.MarshalIndent(c, "", " ")
	fmt.Println(string(cj))
	if sc, ok := c.(*StreamCase); ok {
		fmt.Println("---- program ----")
		fmt.Println(sc.ProgText)
	}
	o := w.Run(c, true)
	oj, _ := json.MarshalIndent(o, "", " ")
	fmt.Println(string(oj))
	return 0
}
