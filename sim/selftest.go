package main

import (
	"encoding/json"
	"fmt"
	"os"
)

func selftestMain(args []string) int {
	fmt.Println("selftest: not yet implemented")
	return 0
}

// gen <P> <workload> <tier> <index>: print the materialised case (debug aid)
func genMain(args []string) int {
	if len(args) < 4 {
		fmt.Fprintln(os.Stderr, "usage: gen <P> <workload> <tier> <index>")
		return 2
	}
	prop := registry[args[0]]
	w := prop.workload(args[1])
	var i int
	fmt.Sscan(args[3], &i)
	t := caseTape(seedFromEnv(), prop.ID, w, i)
	c := w.Gen(i, t, args[2])
	cj, _ := json.MarshalIndent(c, "", " ")
	fmt.Println(string(cj))
	if sc, ok := c.(*StreamCase); ok {
		fmt.Println("---- program ----")
		fmt.Println(sc.ProgText)
	}
	o := w.Run(c, true)
	oj, _ := json.MarshalIndent(o, "", " ")
	fmt.Println(string(oj))
	return 0
}
