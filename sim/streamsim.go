package main

// Stream world: lang.EvalProgram (all real code) driven through simulated
// io.Readers (one per input file) and a simulated stdout. The simulator decides
// every Read result from the case's schedule and fault plan and evaluates the
// monitors while the run proceeds.

import (
	"bytes"
	"encoding/json"
	"errors"
	"fmt"
	"hash/fnv"
	"io"
	"io/fs"
	"os"
	"strconv"
	"syscall"

	lang "github.com/alligator/jqawk/src"
)

// QBytes marshals arbitrary bytes as a readable, lossless JSON string
// (Go-quoted, ASCII only).
type QBytes []byte

func (q QBytes) MarshalJSON() ([]byte, error) {
	s := strconv.QuoteToASCII(string(q))
	s = s[1 : len(s)-1]
	// store a bare '"' instead of '\"' (JSON escapes it once, readably)
	var sb []byte
	for i := 0; i < len(s); i++ {
		if s[i] == '\\' && i+1 < len(s) {
			if s[i+1] == '"' {
				sb = append(sb, '"')
			} else {
				sb = append(sb, s[i], s[i+1])
			}
			i++
			continue
		}
		sb = append(sb, s[i])
	}
	return json.Marshal(string(sb))
}

func (q *QBytes) UnmarshalJSON(b []byte) error {
	var s string
	if err := json.Unmarshal(b, &s); err != nil {
		return err
	}
	var sb []byte
	for i := 0; i < len(s); i++ {
		if s[i] == '\\' && i+1 < len(s) {
			sb = append(sb, s[i], s[i+1])
			i++
			continue
		}
		if s[i] == '"' {
			sb = append(sb, '\\', '"')
			continue
		}
		sb = append(sb, s[i])
	}
	u, err := strconv.Unquote(`"` + string(sb) + `"`)
	if err != nil {
		return err
	}
	*q = QBytes(u)
	return nil
}

type Fault struct {
	Kind     string `json:"kind"` // TRUNC EIO CORRUPT STRAY
	File     int    `json:"file"`
	Off      int    `json:"off"`
	WithData bool   `json:"with_data,omitempty"` // EIO: error returned together with the preceding bytes
	Once     bool   `json:"once,omitempty"`      // EIO: the reader reports the error once; every later Read reports end of file
	ErrKind  string `json:"err_kind,omitempty"`  // EIO: which error value the reader fails with ("" = EIO path error)
	How      string `json:"how,omitempty"`       // CORRUPT: replace | delete | dup
	Byte     int    `json:"byte,omitempty"`      // CORRUPT replace: new byte
	Text     QBytes `json:"text,omitempty"`      // STRAY: inserted text
}

type SimFile struct {
	Name        string `json:"name"`
	Data        QBytes `json:"data"`
	Sched       []int  `json:"sched"`         // per Read: bytes to give (0 = zero-byte read); exhausted => everything
	EOFWithData bool   `json:"eof_with_data"` // deliver io.EOF together with the last bytes
}

type StreamCase struct {
	Mode      string    `json:"mode"` // c02 | c03 | c01
	Prog      *TProg    `json:"prog,omitempty"`
	ProgText  string    `json:"prog_text"`
	Selectors []string  `json:"selectors,omitempty"`
	Files     []SimFile `json:"files"`
	Fault     *Fault    `json:"fault,omitempty"`
	WFault    *WFault   `json:"wfault,omitempty"`
}

// WFault: the output sink starts failing at the At-th write (mode c01 only:
// what a run does about a failing sink is not part of any schedule oracle, but
// it must still end in success or one of the three kinds).
type WFault struct {
	At      int    `json:"at"`
	ErrKind string `json:"err_kind"`
	Short   bool   `json:"short"` // the failing writes accept half of the bytes
}

var simWriteErrors = map[string]error{
	"epipe":         &fs.PathError{Op: "write", Path: "|1", Err: syscall.EPIPE},
	"enospc":        &fs.PathError{Op: "write", Path: "/dev/stdout", Err: syscall.ENOSPC},
	"short-write":   io.ErrShortWrite,
	"closed-pipe":   io.ErrClosedPipe,
	"plain":         errors.New("sink unavailable"),
	"eof":           io.EOF,
	"wrapped-epipe": fmt.Errorf("flush: %w", syscall.EPIPE),
}

// Visible returns the bytes the reader of file i can hand out, and whether the
// stream ends in an I/O error instead of EOF.
func (c *StreamCase) Visible(i int) (data []byte, eio bool) {
	data = c.Files[i].Data
	f := c.Fault
	if f == nil || f.File != i {
		return data, false
	}
	off := f.Off
	if off > len(data) {
		off = len(data)
	}
	if off < 0 {
		off = 0
	}
	switch f.Kind {
	case "TRUNC":
		return data[:off], false
	case "EIO":
		return data[:off], true
	case "CORRUPT":
		if len(data) == 0 {
			return data, false
		}
		if off >= len(data) {
			off = len(data) - 1
		}
		out := make([]byte, 0, len(data)+1)
		out = append(out, data[:off]...)
		switch f.How {
		case "delete":
		case "dup":
			out = append(out, data[off], data[off])
		default:
			out = append(out, byte(f.Byte))
		}
		out = append(out, data[off+1:]...)
		return out, false
	case "STRAY":
		out := make([]byte, 0, len(data)+len(f.Text))
		out = append(out, data[:off]...)
		out = append(out, f.Text...)
		out = append(out, data[off:]...)
		return out, false
	}
	return data, false
}

// ---- event log ----

type EventLog struct {
	seq   int
	h     uint64
	shape []byte
	keep  bool
	lines []string
}

func newEventLog(keep bool) *EventLog {
	return &EventLog{h: 1469598103934665603, keep: keep}
}

func (l *EventLog) add(kind byte, shapeCh byte, format string, args ...any) {
	l.seq++
	s := fmt.Sprintf(format, args...)
	hh := fnv.New64a()
	hh.Write([]byte(s))
	l.h = (l.h ^ hh.Sum64()) * 1099511628211
	if shapeCh != 0 && len(l.shape) < 256 {
		l.shape = append(l.shape, shapeCh)
	}
	if l.keep && len(l.lines) < 400 {
		l.lines = append(l.lines, fmt.Sprintf("%d %s", l.seq, s))
	}
}

func (l *EventLog) Hash() string { return strconv.FormatUint(l.h, 16) }

var errSimEIO = &fs.PathError{Op: "read", Path: "<sim>", Err: syscall.EIO}

// every one of these is a failed read, not the end of the stream
var simReadErrors = map[string]error{
	"":                   errSimEIO,
	"eagain":             &fs.PathError{Op: "read", Path: "/dev/stdin", Err: syscall.EAGAIN},
	"eintr":              syscall.EINTR,
	"wrapped-eof":        fmt.Errorf("read tcp 10.0.0.1:443: connection lost: %w", io.EOF),
	"unexpected-eof":     io.ErrUnexpectedEOF,
	"wrapped-unexpected": fmt.Errorf("short body: %w", io.ErrUnexpectedEOF),
	"text-eof":           errors.New("EOF"),
	"closed-pipe":        io.ErrClosedPipe,
	"no-progress":        io.ErrNoProgress,
	"path-eof":           &fs.PathError{Op: "read", Path: "<sim>", Err: io.EOF},
	"timeout":            os.ErrDeadlineExceeded,
}

func (f *Fault) readError() error {
	if e, ok := simReadErrors[f.ErrKind]; ok {
		return e
	}
	return errSimEIO
}

// ---- the simulation of one run ----

type streamRun struct {
	c          *StreamCase
	log        *EventLog
	out        bytes.Buffer
	writes     int
	model      *ModelResult // expectation used by monitor M1 (nil: no M1)
	refs       []RefResult  // per file: reference scan of the visible bytes
	m1Fail     string
	m1Verified int
	probes     map[string]int
	faults     map[string]int
	curFile    int
}

type simReader struct {
	run     *streamRun
	idx     int
	data    []byte
	eio     bool
	pos     int
	step    int
	sticky  error
	zeroRun int
}

func (r *simReader) Read(p []byte) (int, error) {
	run := r.run
	run.curFile = r.idx
	run.monitorM1(r.idx, r.pos)
	f := &run.c.Files[r.idx]
	if r.sticky != nil {
		run.probes["read_after_end"]++
		if r.eio && run.c.Fault.Once && r.sticky != io.EOF {
			// a reader that forgets its error: it failed once, now it says end of file
			run.probes["read_after_forgotten_error"]++
			run.log.add('R', 0, "READ f=%d off=%d asked=%d given=0 err=EOF (the error was reported once)", r.idx, r.pos, len(p))
			return 0, io.EOF
		}
		run.log.add('R', 0, "READ f=%d off=%d asked=%d given=0 err=%v (sticky)", r.idx, r.pos, len(p), r.sticky)
		return 0, r.sticky
	}
	if len(p) == 0 {
		return 0, nil
	}
	remaining := len(r.data) - r.pos
	if remaining == 0 {
		if r.eio {
			r.sticky = run.c.Fault.readError()
			run.faults["EIO"]++
			run.noteFaultPos(r.idx, r.pos)
			run.log.add('F', 'X', "READ f=%d off=%d asked=%d given=0 err=EIO", r.idx, r.pos, len(p))
			return 0, r.sticky
		}
		r.sticky = io.EOF
		run.log.add('R', 'E', "READ f=%d off=%d asked=%d given=0 err=EOF", r.idx, r.pos, len(p))
		return 0, io.EOF
	}
	n := remaining
	if r.step < len(f.Sched) {
		n = f.Sched[r.step]
		r.step++
	}
	if n == 0 {
		r.zeroRun++
		if r.zeroRun >= 2 {
			run.probes["zero_reads_2plus"]++
		}
		run.log.add('R', 'z', "READ f=%d off=%d asked=%d given=0 err=nil", r.idx, r.pos, len(p))
		return 0, nil
	}
	r.zeroRun = 0
	if n < 0 || n > remaining {
		n = remaining
	}
	if n > len(p) {
		n = len(p)
	}
	copy(p, r.data[r.pos:r.pos+n])
	start := r.pos
	r.pos += n
	var err error
	if r.pos == len(r.data) {
		if r.eio && run.c.Fault.WithData {
			err = run.c.Fault.readError()
			r.sticky = err
			run.faults["EIO"]++
			run.noteFaultPos(r.idx, r.pos)
		} else if !r.eio && f.EOFWithData {
			err = io.EOF
			r.sticky = err
			run.probes["eof_with_data"]++
		}
	}
	run.log.add('R', run.posClass(r.idx, start, r.pos), "READ f=%d off=%d asked=%d given=%d err=%v", r.idx, start, len(p), n, err)
	run.noteChunk(r.idx, start, r.pos)
	return n, err
}

type simWriter struct{ run *streamRun }

func (w *simWriter) Write(p []byte) (int, error) {
	if wf := w.run.c.WFault; wf != nil && w.run.writes >= wf.At {
		n := 0
		if wf.Short {
			n = len(p) / 2
		}
		w.run.out.Write(p[:n])
		w.run.writes++
		w.run.faults["WRITE_ERROR_"+wf.ErrKind]++
		w.run.log.add('W', 'e', "WRITE %q accepted=%d err=%s", p, n, wf.ErrKind)
		return n, simWriteErrors[wf.ErrKind]
	}
	w.run.out.Write(p)
	w.run.writes++
	w.run.log.add('W', 'w', "WRITE %q", p)
	return len(p), nil
}

// posClass classifies where a chunk ends relative to value boundaries.
func (run *streamRun) posClass(file, start, end int) byte {
	ref := &run.refs[file]
	nvals := 0
	cls := byte('g') // in a gap / whitespace / beyond
	for _, v := range ref.Values {
		if v.End <= end && v.End > start {
			nvals++
		}
		switch {
		case end == v.End:
			cls = 'e'
		case end == v.End+1:
			cls = 'p'
		case end > v.Start && end < v.End:
			cls = 'i'
		}
	}
	if nvals >= 2 {
		run.probes["multi_values_one_read"]++
		return 'M'
	}
	return cls
}

func (run *streamRun) noteChunk(file, start, end int) {
	// probes on where chunk boundaries fall
	data, _ := run.c.Visible(file)
	if end < len(data) && end > 0 {
		if data[end-1] == '\\' {
			run.probes["boundary_in_escape"]++
		}
		if data[end]&0xC0 == 0x80 {
			run.probes["boundary_in_utf8"]++
		}
	}
	if end-start > 512 {
		run.probes["chunk_over_512"]++
	}
}

func (run *streamRun) noteFaultPos(file, pos int) {
	ref := &run.refs[file]
	if pos == 0 {
		run.probes["fault_at_0"]++
	}
	for _, v := range ref.Values {
		if pos == v.End {
			run.probes["fault_at_value_end"]++
		}
	}
	if file > 0 {
		run.probes["fault_in_later_file"]++
	}
	if len(run.c.Selectors) > 0 {
		run.probes["fault_with_selectors"]++
	}
}

// monitorM1: evaluated exactly when the SUT is about to ask for more input.
// Every expected output line owned by a value v of this file with
// End(v)+1 <= bytes handed out (and by all earlier files, and BEGIN) must
// already have been written.
func (run *streamRun) monitorM1(file, handed int) {
	if run.model == nil || run.m1Fail != "" {
		return
	}
	// values are in stream order: binary search for the last one with End+1 <= handed
	vals := run.refs[file].Values
	lo, hi := 0, len(vals)
	for lo < hi {
		mid := (lo + hi) / 2
		if vals[mid].End+1 <= handed {
			lo = mid + 1
		} else {
			hi = mid
		}
	}
	k := lo - 1
	want := run.model.PrefixLen(file, k)
	full := run.model.Text()
	if want > len(full) {
		want = len(full)
	}
	got := run.out.Bytes()
	if len(got) < want {
		run.m1Fail = fmt.Sprintf("late-output: file %d: %d bytes handed out, value #%d (and one following byte) delivered, but only %d of the %d output bytes owed so far have been written", file, handed, k, len(got), want)
		return
	}
	// output only grows: compare the part not verified by an earlier Read
	if want > run.m1Verified {
		if string(got[run.m1Verified:want]) != full[run.m1Verified:want] {
			run.m1Fail = fmt.Sprintf("late-output: output written so far diverges from expectation within the first %d bytes", want)
		}
		run.m1Verified = want
	}
}

type Outcome struct {
	Class      string         `json:"class"` // "" = held
	Msg        string         `json:"msg,omitempty"`
	LogHash    string         `json:"log_hash"`
	Shape      string         `json:"shape,omitempty"`
	Nontrivial bool           `json:"nontrivial"`
	Steps      int            `json:"steps"`
	Faults     map[string]int `json:"faults,omitempty"`
	Probes     map[string]int `json:"probes,omitempty"`
	Log        []string       `json:"log,omitempty"`
	Skipped    string         `json:"skipped,omitempty"` // verdict deliberately not taken (unspecified class)
}

// signalMessages: the texts of the interpreter's internal control-flow
// signals. An error of any type whose whole message is one of these is a signal
// that surfaced to the caller, whatever it was wrapped in.
var signalMessages = map[string]bool{"next": true, "exit": true, "break": true, "continue": true, "return": true}

func classifyErr(err error) (string, string) {
	if err == nil {
		return "success", ""
	}
	var se lang.SyntaxError
	var re lang.RuntimeError
	var je lang.JsonError
	if signalMessages[err.Error()] {
		return "foreign", fmt.Sprintf("internal control-flow signal %q surfaced as %T", err.Error(), err)
	}
	switch {
	case errors.As(err, &se):
		return "SyntaxError", se.Message
	case errors.As(err, &re):
		return "RuntimeError", re.Message
	case errors.As(err, &je):
		return "JsonError", je.Message
	}
	return "foreign", fmt.Sprintf("%T: %v", err, err)
}

type runResult struct {
	kind     string // success SyntaxError RuntimeError JsonError foreign panic
	msg      string
	jsonFile string
	stdout   string
}

// execStream runs the SUT on the case once.
func execStream(c *StreamCase, run *streamRun) (res runResult) {
	files := make([]lang.InputFile, len(c.Files))
	for i := range c.Files {
		data, eio := c.Visible(i)
		files[i] = lang.InputFile{Name: c.Files[i].Name, Reader: &simReader{run: run, idx: i, data: data, eio: eio}}
	}
	func() {
		defer func() {
			if r := recover(); r != nil {
				res.kind = "panic"
				res.msg = fmt.Sprint(r)
			}
		}()
		_, err := lang.EvalProgram(c.ProgText, files, c.Selectors, &simWriter{run}, false)
		res.kind, res.msg = classifyErr(err)
		var je lang.JsonError
		if errors.As(err, &je) {
			res.jsonFile = je.FileName
		}
	}()
	res.stdout = run.out.String()
	run.log.add('E', 0, "RUN_END %s %q", res.kind, res.msg)
	return res
}

func newStreamRun(c *StreamCase, keepLog bool) *streamRun {
	run := &streamRun{c: c, log: newEventLog(keepLog), probes: map[string]int{}, faults: map[string]int{}}
	run.refs = make([]RefResult, len(c.Files))
	for i := range c.Files {
		data, _ := c.Visible(i)
		run.refs[i] = ScanStream(data)
	}
	return run
}

// streamExpectation computes what the property demands for the case.
type streamExpect struct {
	ok       bool // model applicable
	why      string
	alts     []streamAlt // acceptable (outcome, stdout) pairs
	m1       *ModelResult
	faulted  bool
	dubious  bool
	faultFil int
}

type streamAlt struct {
	kind   string // success | JsonError
	file   string
	stdout string
}

func expectStream(c *StreamCase, refs []RefResult) streamExpect {
	ex := streamExpect{ok: true}
	if c.Prog == nil {
		ex.ok = false
		ex.why = "no model"
		return ex
	}
	// find the first file whose visible bytes are defective or end in EIO
	defFile := -1
	for i := range c.Files {
		_, eio := c.Visible(i)
		if refs[i].Dubious {
			ex.dubious = true
		}
		if refs[i].Status != RefClean || eio {
			defFile = i
			break
		}
	}
	build := func(dropLast bool) ([]ModelFile, bool) {
		var mf []ModelFile
		for i := range c.Files {
			if defFile >= 0 && i > defFile {
				break
			}
			vals := make([]*JVal, 0, len(refs[i].Values))
			for _, v := range refs[i].Values {
				vals = append(vals, v.V)
			}
			if i == defFile && dropLast {
				if len(vals) == 0 {
					return nil, false
				}
				vals = vals[:len(vals)-1]
			}
			mf = append(mf, ModelFile{c.Files[i].Name, vals})
		}
		return mf, true
	}
	if defFile < 0 {
		mf, _ := build(false)
		m := RunModel(c.Prog, mf, c.Selectors, true)
		if !m.OK {
			ex.ok, ex.why = false, m.Why
			return ex
		}
		ex.alts = []streamAlt{{kind: "success", stdout: m.Text()}}
		ex.m1 = &m
		return ex
	}
	ex.faulted = true
	ex.faultFil = defFile
	mf, _ := build(false)
	m := RunModel(c.Prog, mf, c.Selectors, false)
	if !m.OK {
		ex.ok, ex.why = false, m.Why
		return ex
	}
	alt := func(m *ModelResult) streamAlt {
		if m.Exited {
			return streamAlt{kind: "success", stdout: m.Text()}
		}
		return streamAlt{kind: "JsonError", file: c.Files[defFile].Name, stdout: m.Text()}
	}
	ex.alts = append(ex.alts, alt(&m))
	ex.m1 = &m
	// narrow relaxation: the reader failed immediately after the last byte of
	// a value (no following byte was delivered): that value may or may not
	// have been processed; the error stays mandatory.
	_, eio := c.Visible(defFile)
	if eio && refs[defFile].Status == RefClean && len(refs[defFile].Values) > 0 {
		data, _ := c.Visible(defFile)
		last := refs[defFile].Values[len(refs[defFile].Values)-1]
		if last.End == len(data) {
			mf2, ok := build(true)
			if ok {
				m2 := RunModel(c.Prog, mf2, c.Selectors, false)
				if m2.OK {
					a2 := alt(&m2)
					if a2.kind == "success" {
						// the shorter history ends in exit: then exit fired before the
						// undecidable value, which equally holds for the longer one
					}
					ex.alts = append(ex.alts, a2)
					ex.m1 = &m2 // M1 obliges only what both alternatives owe
				}
			}
		}
	}
	return ex
}

// runStreamCase executes a stream-world case and evaluates the checks that
// belong to the given mode.
func runStreamCase(c *StreamCase, keepLog bool) Outcome {
	lang.VerifResetProcessState()
	if c.ProgText == "" && c.Prog != nil {
		c.ProgText = c.Prog.Render()
	}
	run := newStreamRun(c, keepLog)
	ex := expectStream(c, run.refs)
	if ex.ok && !ex.dubious && c.Mode != "c01" {
		run.model = ex.m1
	}
	res := execStream(c, run)
	o := Outcome{LogHash: run.log.Hash(), Steps: run.log.seq, Faults: run.faults, Probes: run.probes, Log: run.log.lines}
	o.Shape = c.Mode + ":" + string(run.log.shape)
	o.Nontrivial = run.writes > 0 && len(run.log.shape) >= 2
	if c.Fault != nil && c.Fault.Kind != "EIO" {
		o.Faults[c.Fault.Kind]++
	}

	// H1 (C01's invariant) is evaluated in every mode.
	switch res.kind {
	case "panic":
		o.Class, o.Msg = "panic", "internal panic: "+res.msg
		return o
	case "foreign":
		o.Class, o.Msg = "foreign-error", "a non-jqawk error value reached the caller: "+res.msg
		return o
	}
	if c.Mode == "c01" {
		return o
	}
	if ex.dubious {
		o.Skipped = "input class left unspecified by the property (overflowing number / invalid UTF-8 / duplicate key)"
		o.Probes["skipped_dubious"]++
		return o
	}
	if !ex.ok {
		o.Skipped = "outside model domain: " + ex.why
		o.Probes["skipped_unmodelled"]++
		return o
	}
	if run.m1Fail != "" {
		o.Class, o.Msg = "late-output", run.m1Fail
		return o
	}
	for _, a := range ex.alts {
		if a.kind == res.kind && a.stdout == res.stdout && (a.kind != "JsonError" || a.file == res.jsonFile) {
			return o
		}
	}
	// classify the mismatch against the alternative with the same outcome kind, if any
	a := ex.alts[0]
	for _, alt := range ex.alts {
		if alt.kind == res.kind {
			a = alt
			break
		}
	}
	switch {
	case a.kind == "JsonError" && res.kind == "success":
		o.Class = "missing-json-error"
		o.Msg = fmt.Sprintf("defective input in %q was treated as end of input: run succeeded", a.file)
	case a.kind == "JsonError" && res.kind == "JsonError" && res.jsonFile != a.file:
		o.Class = "wrong-file-in-json-error"
		o.Msg = fmt.Sprintf("JSON error names %q, the defective file is %q", res.jsonFile, a.file)
	case a.kind != res.kind:
		o.Class = "wrong-outcome"
		o.Msg = fmt.Sprintf("expected outcome %s, observed %s (%s)", a.kind, res.kind, res.msg)
	default:
		o.Class = "stdout-mismatch"
		if ex.faulted {
			o.Class = "stdout-mismatch-under-fault"
		}
		o.Msg = fmt.Sprintf("stdout differs from the reference schedule\n--- expected ---\n%s--- observed ---\n%s", a.stdout, res.stdout)
	}
	return o
}
