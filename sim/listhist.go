package main

// Value-history world for C15: seeded sequences of array-method operations
// (push, pop, popfirst, length, index read/write, contains, sort, and method
// calls nested inside method arguments) interleaved on three arrays held by a
// variable, an object member and a document field, each always addressed
// through the one name that holds it; after every operation the result and
// all arrays are printed and compared with an ideal-list model.

import (
	"bytes"
	"fmt"
	"math"
	"sort"
	"strconv"
	"strings"

	lang "github.com/alligator/jqawk/src"
)

var listHolders = []string{"a", "o.arr", "$.items"}

type LOp struct {
	Arr    int    `json:"arr"`
	Kind   string `json:"kind"` // push pop popfirst length get set contains sort nested before-start
	Lit    string `json:"lit,omitempty"`
	Idx    int    `json:"idx,omitempty"`
	Other  int    `json:"other,omitempty"`
	Nested string `json:"nested,omitempty"` // push-pop push-popfirst push-length push-pushlen push-sortlen contains-pop set-length push-selflen
	Lit2   string `json:"lit2,omitempty"`
}

type ListCase struct {
	Init [3]string `json:"init"` // JSON array literals for the three holders
	Ops  []LOp     `json:"ops"`
	// Passes: the rule (the whole history) is executed again over a fresh copy
	// of the document: 2 = root selectors $ and $, 3 = the document twice in the
	// input stream. Every pass must give what the first gave: the arrays of one
	// pass are not the arrays of the next.
	Passes int `json:"passes,omitempty"`
}

func (c *ListCase) doc() string { return `{"items": ` + c.Init[2] + `, "other": 1}` }

// literals that JSON cannot spell: not-a-number and the infinities, made by num()
var specialLits = map[string]float64{`num("nan")`: math.NaN(), `num("inf")`: math.Inf(1), `num("-inf")`: math.Inf(-1)}

func parseLit(s string) (HV, bool) {
	if f, ok := specialLits[s]; ok {
		return hNum(f), true
	}
	r := ScanStream([]byte(s))
	if r.Status != RefClean || len(r.Values) != 1 {
		return HV{}, false
	}
	return fromJVal(r.Values[0].V), true
}

// jqawk literal text for a scalar model value
func scalarLit(v HV) string {
	if v.K == 'n' {
		switch {
		case math.IsNaN(v.Num):
			return `num("nan")`
		case math.IsInf(v.Num, 1):
			return `num("inf")`
		case math.IsInf(v.Num, -1):
			return `num("-inf")`
		}
	}
	return v.canon()
}

type listModel struct {
	lists [3][]HV
}

type listStep struct {
	stmts   []string // statements to execute
	result  string   // expected R payload ("" none)
	result2 string   // a second R line
	altList []HV     // the operation's own array may also end like this (see pop-push-self)
	hasAlt  bool
	keys    string // a K line precedes R: the string forms the model assumed (run skipped when they differ)
	alt     string // twin runs: the statements of the second run's last operation
	pattern bool   // the fatal operation sits in the pattern of a following rule
	twin    bool   // the last operation is executed in two runs whose endings are compared
	q       bool   // a Q line follows (contains): R must equal the OR of the Q values
	fatal   bool   // the operation must end the run with a runtime error
}

func allScalar(l []HV) bool {
	for _, v := range l {
		if v.isContainer() {
			return false
		}
	}
	return true
}

func canonList(l []HV) string {
	parts := make([]string, len(l))
	for i, v := range l {
		parts[i] = v.canon()
	}
	return "[" + strings.Join(parts, ",") + "]"
}

func sortKeyOK(l []HV) bool {
	for _, v := range l {
		if v.K != 'n' && v.K != 's' {
			return false
		}
		if v.K == 'n' && math.IsNaN(v.Num) {
			return false // the position of not-a-number in a sort is not fixed by the statement
		}
	}
	return true
}

func sortedCopy(l []HV) []HV {
	out := append([]HV(nil), l...)
	allNum := true
	for _, v := range l {
		if v.K != 'n' {
			allNum = false
		}
	}
	sort.SliceStable(out, func(i, j int) bool {
		if allNum {
			return out[i].Num < out[j].Num
		}
		return strForm2(out[i]) < strForm2(out[j])
	})
	return out
}

func strForm2(v HV) string {
	switch v.K {
	case 's':
		return v.Str
	case 'n':
		return fmtNum(v.Num)
	}
	// null, booleans, containers: `"" + v` is the empty string
	return ""
}

// step applies one operation to the model and renders its statements.
func (m *listModel) step(op *LOp) (listStep, error) {
	if op.Arr < 0 || op.Arr > 2 || op.Other < 0 || op.Other > 2 {
		return listStep{}, errUnsupported{"holder"}
	}
	H := listHolders[op.Arr]
	l := &m.lists[op.Arr]
	n := len(*l)
	R := func(expr string) string { return "print \"R\", [" + expr + "]" }
	switch op.Kind {
	case "push":
		v, ok := parseLit(op.Lit)
		if !ok {
			return listStep{}, errUnsupported{"literal"}
		}
		*l = append(*l, v)
		return listStep{stmts: []string{R(H + ".push(" + op.Lit + ")")}, result: "[" + canonList(*l) + "]"}, nil
	case "pop":
		if n == 0 {
			return listStep{stmts: []string{R(H + ".pop()")}, result: "[null]"}, nil
		}
		v := (*l)[n-1]
		*l = (*l)[:n-1]
		return listStep{stmts: []string{R(H + ".pop()")}, result: "[" + v.canon() + "]"}, nil
	case "popfirst":
		if n == 0 {
			return listStep{stmts: []string{R(H + ".popfirst()")}, result: "[null]"}, nil
		}
		v := (*l)[0]
		*l = append([]HV(nil), (*l)[1:]...)
		return listStep{stmts: []string{R(H + ".popfirst()")}, result: "[" + v.canon() + "]"}, nil
	case "length":
		return listStep{stmts: []string{R(H + ".length()")}, result: "[" + strconv.Itoa(n) + "]"}, nil
	case "get":
		idx := op.Idx
		real := idx
		if real < 0 {
			real += n
		}
		if real < 0 {
			return listStep{}, errUnsupported{"before start (use before-start)"}
		}
		res := "null"
		if real < n {
			res = (*l)[real].canon()
		}
		return listStep{stmts: []string{R(fmt.Sprintf("%s[%d]", H, idx))}, result: "[" + res + "]"}, nil
	case "set":
		v, ok := parseLit(op.Lit)
		if !ok {
			return listStep{}, errUnsupported{"literal"}
		}
		real := op.Idx
		if real < 0 {
			real += n
		}
		if real < 0 || real > n+14 {
			return listStep{}, errUnsupported{"index"}
		}
		for len(*l) <= real {
			*l = append(*l, hNull())
		}
		(*l)[real] = v
		return listStep{stmts: []string{fmt.Sprintf("%s[%d] = %s", H, op.Idx, op.Lit)}}, nil
	case "contains":
		v, ok := parseLit(op.Lit)
		if !ok || v.isContainer() || !allScalar(*l) {
			return listStep{}, errUnsupported{"contains needs scalars"}
		}
		cmps := make([]string, n)
		for i := range cmps {
			cmps[i] = fmt.Sprintf("%s[%d] == %s", H, i, op.Lit)
		}
		return listStep{stmts: []string{R(H + ".contains(" + op.Lit + ")"), "print \"Q\", [" + strings.Join(cmps, ", ") + "]"}, q: true}, nil
	case "contains-unset":
		// the argument is a variable that was never assigned
		if !allScalar(*l) {
			return listStep{}, errUnsupported{"contains needs scalars"}
		}
		cmps := make([]string, n)
		for i := range cmps {
			cmps[i] = fmt.Sprintf("%s[%d] == neverset", H, i)
		}
		return listStep{stmts: []string{R(H + ".contains(neverset)"), "print \"Q\", [" + strings.Join(cmps, ", ") + "]"}, q: true}, nil
	case "sort":
		if !sortKeyOK(*l) {
			// elements that are neither numbers nor strings: their string form is
			// taken to be what the language itself gives for `"" + element`; the
			// run prints those forms first (K line) and the sort is only judged
			// when they are the ones the model sorted by
			for _, v := range *l {
				if v.K == 'n' && math.IsNaN(v.Num) {
					return listStep{}, errUnsupported{"the position of not-a-number in a sort is not fixed by the statement"}
				}
			}
			forms := make([]string, n)
			keys := make([]HV, n)
			for i, v := range *l {
				forms[i] = fmt.Sprintf("\"\" + %s[%d]", H, i)
				keys[i] = HV{K: 's', Str: strForm2(v)}
			}
			return listStep{stmts: []string{"print \"K\", [" + strings.Join(forms, ", ") + "]", R(H + ".sort()")}, keys: canonList(keys), result: "[" + canonList(sortedCopy(*l)) + "]"}, nil
		}
		return listStep{stmts: []string{R(H + ".sort()")}, result: "[" + canonList(sortedCopy(*l)) + "]"}, nil
	case "bulk-push":
		// many pushes in a loop: the backing store grows through several capacities
		cnt := op.Idx
		if cnt < 1 || cnt > 2000 {
			return listStep{}, errUnsupported{"count"}
		}
		for i := 0; i < cnt; i++ {
			*l = append(*l, hNum(float64(i)))
		}
		return listStep{stmts: []string{fmt.Sprintf("for (bi = 0; bi < %d; bi++) { %s.push(bi) }", cnt, H), R(H + ".length()")}, result: "[" + strconv.Itoa(len(*l)) + "]"}, nil
	case "bulk-pop", "bulk-popfirst":
		cnt := op.Idx
		if cnt < 1 || cnt > 2000 {
			return listStep{}, errUnsupported{"count"}
		}
		sum := 0.0
		for i := 0; i < cnt && len(*l) > 0; i++ {
			var v HV
			if op.Kind == "bulk-pop" {
				v = (*l)[len(*l)-1]
				*l = (*l)[:len(*l)-1]
			} else {
				v = (*l)[0]
				*l = append([]HV(nil), (*l)[1:]...)
			}
			if v.K != 'n' || math.IsNaN(v.Num) || math.IsInf(v.Num, 0) {
				return listStep{}, errUnsupported{"bulk pops need plain numbers"}
			}
			sum += v.Num
		}
		meth := strings.TrimPrefix(op.Kind, "bulk-")
		// the popped values are summed (each must be the right element), then the length is read
		return listStep{stmts: []string{fmt.Sprintf("bs = 0\nfor (bi = 0; bi < %d; bi++) { if (%s.length() > 0) { bs += %s.%s() } }", cnt, H, H, meth), R("bs"), R(H + ".length()")}, result: "[" + fmtNum(sum) + "]", result2: "[" + strconv.Itoa(len(*l)) + "]"}, nil
	case "lit-assign":
		// an index write (or a variable assignment) used as an item of an array
		// literal: the new array holds the assigned value, not the assigned-to
		// slot, so a later write to either leaves the other alone
		v, ok := parseLit(op.Lit)
		if !ok || v.isContainer() {
			return listStep{}, errUnsupported{"literal"}
		}
		if op.Idx < 0 {
			// through a variable
			return listStep{stmts: []string{"kept = [nv = " + op.Lit + ", 8]", "nv = \"other\"", R("kept"), "kept[0] = \"changed\"", R("nv")}, result: "[[" + v.canon() + ",8]]", result2: "[\"other\"]"}, nil
		}
		if op.Idx >= n {
			return listStep{}, errUnsupported{"index"}
		}
		(*l)[op.Idx] = v
		return listStep{stmts: []string{fmt.Sprintf("kept = [%s[%d] = %s, 8]", H, op.Idx, op.Lit), "kept[0] = \"changed\"", "kept.push(9)", R("kept")}, result: "[[\"changed\",8,9]]"}, nil
	case "sort-store":
		// keep the sorted copy, change it, and look at the original again
		if !sortKeyOK(*l) {
			return listStep{}, errUnsupported{"sort needs numbers and strings"}
		}
		sorted := sortedCopy(*l)
		sorted = append(sorted, HV{K: 's', Str: "pushed"})
		sorted[0] = HV{K: 's', Str: "changed"}
		return listStep{stmts: []string{"kept = " + H + ".sort()", "kept.push(\"pushed\")", "kept[0] = \"changed\"", R("kept")}, result: "[" + canonList(sorted) + "]"}, nil
	case "contains-mixed":
		// an array that also holds containers: contains must end exactly as the
		// walk `for each element in order: element == v` ends (a value or an error)
		if _, ok := parseLit(op.Lit); !ok {
			return listStep{}, errUnsupported{"literal"}
		}
		walk := fmt.Sprintf("cw = false\nfor (ci = 0; ci < %d; ci++) { if (%s[ci] == %s) { cw = true\n break } }\nprint \"R\", [cw]", n, H, op.Lit)
		return listStep{stmts: []string{R(H + ".contains(" + op.Lit + ")")}, alt: walk, fatal: true, twin: true}, nil
	case "before-start":
		k := n + 1 + op.Idx
		if op.Idx < 0 {
			return listStep{}, errUnsupported{"index"}
		}
		return listStep{stmts: []string{R(fmt.Sprintf("%s[%d]", H, -k))}, fatal: true}, nil
	case "before-start-pattern":
		// the same, evaluated as (part of) the pattern of a further rule
		k := n + 1 + op.Idx
		if op.Idx < 0 || op.Arr == 1 {
			return listStep{}, errUnsupported{"index"}
		}
		pat := []string{"%s[%d] == 1", "[1].contains(%s[%d])", "%s[%d] is number", "!%s[%d]"}[op.Idx%4]
		return listStep{stmts: []string{"print \"LAST\"\n}\n" + fmt.Sprintf(pat, H, -k) + " { print \"PAT\" }\n{ print \"AFTER\""}, fatal: true, pattern: true}, nil
	case "elem-push":
		// the receiver is an element of the array that the argument's own call grows:
		// the method acts on the array it was invoked on
		if n == 0 || (*l)[n-1].K != 'a' {
			return listStep{}, errUnsupported{"needs an array as last element"}
		}
		v, ok := parseLit(op.Lit)
		if !ok {
			return listStep{}, errUnsupported{"literal"}
		}
		inner := (*l)[n-1].Arr
		*l = append(*l, v)
		inner.Items = append(inner.Items, &HCell{V: hNum(float64(n + 1))})
		return listStep{stmts: []string{R(fmt.Sprintf("%s[-1].push(%s.push(%s).length()).length()", H, H, op.Lit))}, result: "[" + strconv.Itoa(len(inner.Items)) + "]"}, nil
	case "pop-push-self":
		// an index write whose right-hand side pops the addressed element and
		// pushes it onto another array (closing operation: what the write does to
		// its own array depends on whether the target is resolved before or after
		// the right-hand side -- known finding K12 -- so both endings are accepted;
		// the other array is not in doubt)
		if op.Other == op.Arr || n < 2 || (*l)[n-1].isContainer() {
			return listStep{}, errUnsupported{"needs two arrays and a scalar last element"}
		}
		g := &m.lists[op.Other]
		last := (*l)[n-1]
		*g = append(*g, last)
		lost := append([]HV(nil), (*l)[:n-1]...)
		*l = append(append([]HV(nil), (*l)[:n-2]...), hNum(float64(len(*g))))
		return listStep{stmts: []string{fmt.Sprintf("%s[-1] = %s.push(%s.pop()).length()", H, listHolders[op.Other], H)}, altList: lost, hasAlt: true}, nil
	case "self-rhs":
		// a write at or past the end whose right-hand side looks at the same
		// array: it sees the array as it is before the write (also before any padding)
		d := op.Idx
		if d < 0 || d > 2 {
			return listStep{}, errUnsupported{"gap"}
		}
		var v HV
		var rhs string
		switch op.Nested {
		case "len":
			v, rhs = hNum(float64(n)), H+".length()"
		case "last":
			if n == 0 || (*l)[n-1].isContainer() {
				return listStep{}, errUnsupported{"needs a scalar last element"}
			}
			v, rhs = (*l)[n-1], H+"[-1]"
		case "lastplus":
			if n == 0 || (*l)[n-1].K != 'n' || math.IsNaN((*l)[n-1].Num) || math.IsInf((*l)[n-1].Num, 0) {
				return listStep{}, errUnsupported{"needs a numeric last element"}
			}
			v, rhs = hNum((*l)[n-1].Num+1), H+"[-1] + 1"
		default:
			return listStep{}, errUnsupported{"kind"}
		}
		for len(*l) < n+d {
			*l = append(*l, hNull())
		}
		*l = append(*l, v)
		return listStep{stmts: []string{fmt.Sprintf("%s[%d] = %s", H, n+d, rhs)}}, nil
	case "sort-keep":
		// the sorted copy is kept, changed in place (no push), and sorted again
		if !sortKeyOK(*l) || n < 2 {
			return listStep{}, errUnsupported{"sort needs two or more numbers and strings"}
		}
		kept := sortedCopy(*l)
		var stmts []string
		stmts = append(stmts, "kept = "+H+".sort()")
		switch op.Nested {
		case "set":
			v, ok := parseLit(op.Lit)
			if !ok || (v.K != 'n' && v.K != 's') || (v.K == 'n' && math.IsNaN(v.Num)) {
				return listStep{}, errUnsupported{"literal"}
			}
			i := op.Idx % n
			kept[i] = v
			stmts = append(stmts, fmt.Sprintf("kept[%d] = %s", i, op.Lit))
		case "incr":
			i := op.Idx % n
			if kept[i].K != 'n' || math.IsInf(kept[i].Num, 0) {
				return listStep{}, errUnsupported{"needs a number"}
			}
			kept[i] = hNum(kept[i].Num + 100)
			stmts = append(stmts, fmt.Sprintf("kept[%d] += 100", i))
		case "pop":
			kept = kept[:len(kept)-1]
			stmts = append(stmts, "kept.pop()")
		case "popfirst":
			kept = kept[1:]
			stmts = append(stmts, "kept.popfirst()")
		default:
			return listStep{}, errUnsupported{"kind"}
		}
		stmts = append(stmts, R("kept.sort()"), R("kept"))
		return listStep{stmts: stmts, result: "[" + canonList(sortedCopy(kept)) + "]", result2: "[" + canonList(kept) + "]"}, nil
	case "nested":
		if op.Other == op.Arr && op.Nested != "push-selflen" {
			return listStep{}, errUnsupported{"nested needs two different arrays"}
		}
		G := listHolders[op.Other]
		g := &m.lists[op.Other]
		gn := len(*g)
		switch op.Nested {
		case "push-pop", "push-popfirst":
			var v HV = hNull()
			if gn > 0 {
				if op.Nested == "push-pop" {
					v = (*g)[gn-1]
					*g = (*g)[:gn-1]
				} else {
					v = (*g)[0]
					*g = append([]HV(nil), (*g)[1:]...)
				}
			}
			*l = append(*l, v)
			meth := strings.TrimPrefix(op.Nested, "push-")
			return listStep{stmts: []string{R(H + ".push(" + G + "." + meth + "())")}, result: "[" + canonList(*l) + "]"}, nil
		case "push-length":
			*l = append(*l, hNum(float64(gn)))
			return listStep{stmts: []string{R(H + ".push(" + G + ".length())")}, result: "[" + canonList(*l) + "]"}, nil
		case "push-selflen":
			*l = append(*l, hNum(float64(n)))
			return listStep{stmts: []string{R(H + ".push(" + H + ".length())")}, result: "[" + canonList(*l) + "]"}, nil
		case "push-pushlen":
			// the same method on another array inside the argument
			v, ok := parseLit(op.Lit2)
			if !ok {
				return listStep{}, errUnsupported{"literal"}
			}
			*g = append(*g, v)
			*l = append(*l, hNum(float64(len(*g))))
			return listStep{stmts: []string{R(H + ".push(" + G + ".push(" + op.Lit2 + ").length())")}, result: "[" + canonList(*l) + "]"}, nil
		case "push-sortlen":
			*l = append(*l, hNum(float64(gn)))
			return listStep{stmts: []string{R(H + ".push(" + G + ".sort().length())")}, result: "[" + canonList(*l) + "]"}, nil
		case "contains-pop":
			if gn == 0 || (*g)[gn-1].isContainer() || !allScalar(*l) {
				return listStep{}, errUnsupported{"contains-pop needs scalars"}
			}
			v := (*g)[gn-1]
			*g = (*g)[:gn-1]
			cmps := make([]string, n)
			for i := range cmps {
				cmps[i] = fmt.Sprintf("%s[%d] == %s", H, i, scalarLit(v))
			}
			return listStep{stmts: []string{R(H + ".contains(" + G + ".pop())"), "print \"Q\", [" + strings.Join(cmps, ", ") + "]"}, q: true}, nil
		case "push-get":
			// the argument is an index read on another array, possibly past its end
			idx := op.Idx
			real := idx
			if real < 0 {
				real += gn
			}
			if real < 0 {
				return listStep{}, errUnsupported{"before start"}
			}
			var v HV = hNull()
			if real < gn {
				v = (*g)[real]
			}
			if v.isContainer() {
				return listStep{}, errUnsupported{"container element would be shared"}
			}
			*l = append(*l, v)
			// ... and the pushed element is then overwritten: the other array must not notice
			(*l)[len(*l)-1] = HV{K: 's', Str: "over"}
			return listStep{stmts: []string{R(fmt.Sprintf("%s.push(%s[%d]).length()", H, G, idx)), fmt.Sprintf("%s[-1] = \"over\"", H)}, result: "[" + strconv.Itoa(len(*l)) + "]"}, nil
		case "set-get":
			// a[i] = b[j] with j possibly past the end of b, then a[i] reassigned
			v2, ok := parseLit(op.Lit)
			if !ok || v2.isContainer() {
				return listStep{}, errUnsupported{"literal"}
			}
			if op.Idx < 0 || op.Idx > n || gn > 40 {
				return listStep{}, errUnsupported{"index"}
			}
			for len(*l) <= op.Idx {
				*l = append(*l, hNull())
			}
			(*l)[op.Idx] = v2
			return listStep{stmts: []string{fmt.Sprintf("%s[%d] = %s[%d]", H, op.Idx, G, gn+1), fmt.Sprintf("%s[%d] = %s", H, op.Idx, op.Lit)}}, nil
		case "set-length":
			// a[b.length()] = lit  (index computed by a method on another array)
			v, ok := parseLit(op.Lit)
			if !ok || gn > n+3 {
				return listStep{}, errUnsupported{"index"}
			}
			for len(*l) <= gn {
				*l = append(*l, hNull())
			}
			(*l)[gn] = v
			return listStep{stmts: []string{fmt.Sprintf("%s[%s.length()] = %s", H, G, op.Lit)}}, nil
		}
	}
	return listStep{}, errUnsupported{"unknown op"}
}

func (c *ListCase) initModel() (*listModel, bool) {
	m := &listModel{}
	for i := 0; i < 3; i++ {
		v, ok := parseLit(c.Init[i])
		if !ok || v.K != 'a' {
			return nil, false
		}
		for _, cell := range v.Arr.Items {
			m.lists[i] = append(m.lists[i], cell.V)
		}
	}
	return m, true
}

func (m *listModel) dump() []string {
	return []string{"[" + canonList(m.lists[0]) + "]", "[" + canonList(m.lists[1]) + "]", "[" + canonList(m.lists[2]) + "]"}
}

const listDump = `print "S", [a], [o.arr], [$.items]`

func runListCase(c *ListCase, keep bool) Outcome {
	lang.VerifResetProcessState()
	log := newEventLog(keep)
	o := Outcome{Probes: map[string]int{}}
	finish := func() Outcome {
		o.LogHash, o.Log, o.Steps = log.Hash(), log.lines, len(c.Ops)
		return o
	}
	m, ok := c.initModel()
	if !ok {
		o.Skipped = "initial arrays outside the model's domain"
		return finish()
	}
	type exp struct {
		tag   string
		vals  []string
		op    int
		q     bool
		fatal bool
		soft  bool
		alt   []string
	}
	var want []exp
	var sb strings.Builder
	sb.WriteString("{\na = " + c.Init[0] + "\no = {arr: " + c.Init[1] + "}\n" + listDump + "\n")
	want = append(want, exp{tag: "S", vals: m.dump(), op: -1})
	kinds := map[string]bool{}
	fatalAt := -1
	twinAlt := ""
	fatalInPattern := false
	for i := range c.Ops {
		st, err := m.step(&c.Ops[i])
		if err != nil {
			o.Skipped = "operation outside the model's domain: " + err.Error()
			return finish()
		}
		k := c.Ops[i].Kind
		if k == "nested" {
			k = c.Ops[i].Nested
			o.Probes["nested_calls"]++
		}
		if st.keys != "" {
			o.Probes["sort_of_mixed_kinds"]++
		}
		kinds[k] = true
		for _, s := range st.stmts {
			sb.WriteString(s + "\n")
		}
		if st.twin {
			twinAlt = st.alt
		}
		if st.pattern {
			fatalInPattern = true
		}
		if st.fatal {
			fatalAt = i
			break
		}
		if st.q {
			want = append(want, exp{tag: "R", op: i, q: true}, exp{tag: "Q", op: i})
		} else if st.result != "" {
			if st.keys != "" {
				want = append(want, exp{tag: "K", vals: []string{st.keys}, op: i, soft: true})
			}
			want = append(want, exp{tag: "R", vals: []string{st.result}, op: i})
			if st.result2 != "" {
				want = append(want, exp{tag: "R", vals: []string{st.result2}, op: i})
			}
		}
		sb.WriteString(listDump + "\n")
		se := exp{tag: "S", vals: m.dump(), op: i}
		if st.hasAlt {
			se.alt = m.dump()
			se.alt[c.Ops[i].Arr] = "[" + canonList(st.altList) + "]"
		}
		want = append(want, se)
	}
	sb.WriteString("print \"DONE\"\n}\n")
	prog := sb.String()
	var selectors []string
	input := c.doc()
	firstPass := len(want)
	if c.Passes >= 2 && fatalAt < 0 {
		one := want
		want = append(append(append([]exp{}, one...), exp{tag: "DONE", op: len(c.Ops) - 1}), one...)
		if c.Passes == 2 {
			selectors = []string{"$", "$"}
		} else {
			input = input + "\n" + input
		}
		o.Probes["second_pass_over_fresh_document"]++
	}
	var out bytes.Buffer
	kind, msg := "", ""
	func() {
		defer func() {
			if r := recover(); r != nil {
				kind, msg = "panic", fmt.Sprint(r)
			}
		}()
		_, err := lang.EvalProgram(prog, []lang.InputFile{{Name: "doc.json", Reader: strings.NewReader(input)}}, selectors, &out, false)
		kind, msg = classifyErr(err)
	}()
	log.add('L', 0, "RUN ops=%d kind=%s msg=%q", len(c.Ops), kind, msg)
	if keep {
		log.lines = append(log.lines, "  program:\n"+prog, "  stdout:\n"+truncate(out.String(), 3000))
	}
	ks := make([]string, 0, len(kinds))
	for k := range kinds {
		ks = append(ks, k)
	}
	sort.Strings(ks)
	o.Shape = strings.Join(ks, ",") + "|" + strconv.Itoa(len(c.Ops)/6)
	o.Nontrivial = len(c.Ops) >= 2
	opText := func(i int) string {
		if i < 0 {
			return "<initial state>"
		}
		op := c.Ops[i]
		mm, _ := c.initModel()
		var last listStep
		for k := 0; k <= i; k++ {
			last, _ = mm.step(&c.Ops[k])
		}
		_ = op
		return strings.Join(last.stmts, "; ")
	}
	lines := strings.Split(strings.TrimSuffix(out.String(), "\n"), "\n")
	li := 0
	for wi := 0; wi < len(want); wi++ {
		w := want[wi]
		if li >= len(lines) || (lines[li] == "DONE" && w.tag != "DONE") {
			o.Class = "run-stopped"
			o.Msg = fmt.Sprintf("the run ended (%s: %s) before operation #%d `%s` completed", kind, msg, w.op, opText(w.op))
			return finish()
		}
		tag, vals, ok := parseLine(lines[li])
		li++
		if !ok || tag != w.tag {
			o.Class = "unparsable-state"
			o.Msg = fmt.Sprintf("after operation #%d `%s`: cannot read the line %q", w.op, opText(w.op), truncate(lines[li-1], 300))
			return finish()
		}
		if w.q {
			// R (contains result) followed by Q (the SUT's own == per element, in order)
			if li >= len(lines) {
				o.Class, o.Msg = "run-stopped", fmt.Sprintf("the run ended (%s: %s) inside operation #%d", kind, msg, w.op)
				return finish()
			}
			_, qvals, qok := parseLine(lines[li])
			li++
			wi++
			if !qok || len(vals) != 1 || len(qvals) != 1 {
				o.Class, o.Msg = "unparsable-state", fmt.Sprintf("operation #%d: cannot read the contains/== lines", w.op)
				return finish()
			}
			any := strings.Contains(qvals[0], "true")
			got := vals[0]
			wantS := "[false]"
			if any {
				wantS = "[true]"
			}
			o.Probes["contains_checked"]++
			if got != wantS {
				o.Class = "contains-disagrees-with-eq"
				o.Msg = fmt.Sprintf("operation #%d `%s`: contains gave %s but == applied to each element in order gave %s", w.op, opText(w.op), got, qvals[0])
				return finish()
			}
			continue
		}
		if len(vals) != len(w.vals) {
			o.Class, o.Msg = "unparsable-state", fmt.Sprintf("after operation #%d: wrong number of values in %q", w.op, truncate(lines[li-1], 300))
			return finish()
		}
		for k := range vals {
			if vals[k] != w.vals[k] {
				if w.alt != nil && vals[k] == w.alt[k] {
					o.Probes["write_lost_to_a_popped_element_K12"]++
					continue
				}
				if w.soft {
					o.Skipped = "the string forms (\"\" + element) of the elements of a mixed array are not the ones the model assumed"
					return finish()
				}
				if w.tag == "R" {
					o.Class = "method-result-mismatch"
					o.Msg = fmt.Sprintf("operation #%d `%s`: result %s, the ideal list gives %s", w.op, opText(w.op), vals[k], w.vals[k])
				} else {
					o.Class = "array-contents-mismatch"
					o.Msg = fmt.Sprintf("after operation #%d `%s`: %s is %s, the ideal list says %s", w.op, opText(w.op), listHolders[k], vals[k], w.vals[k])
				}
				if wi > firstPass {
					o.Msg += " (second pass of the same rule over a fresh copy of the document)"
				}
				return finish()
			}
		}
	}
	_ = firstPass
	if fatalAt >= 0 && twinAlt != "" {
		// second run: the same history with the == walk in place of contains
		o.Probes["contains_mixed"]++
		lastStmts := ""
		{
			mm, _ := c.initModel()
			var last listStep
			for k := 0; k <= fatalAt; k++ {
				last, _ = mm.step(&c.Ops[k])
			}
			lastStmts = strings.Join(last.stmts, "\n")
		}
		prog2 := strings.Replace(prog, lastStmts+"\nprint \"DONE\"", twinAlt+"\nprint \"DONE\"", 1)
		if prog2 == prog {
			o.Class, o.Msg = "harness", "twin program could not be built"
			return finish()
		}
		var out2 bytes.Buffer
		kind2, msg2 := "", ""
		func() {
			defer func() {
				if r := recover(); r != nil {
					kind2, msg2 = "panic", fmt.Sprint(r)
				}
			}()
			lang.VerifResetProcessState()
			_, err := lang.EvalProgram(prog2, []lang.InputFile{{Name: "doc.json", Reader: strings.NewReader(c.doc())}}, nil, &out2, false)
			kind2, msg2 = classifyErr(err)
		}()
		tail := func(s string) string {
			ls := strings.Split(strings.TrimSuffix(s, "\n"), "\n")
			for i := len(ls) - 1; i >= 0; i-- {
				if strings.HasPrefix(ls[i], "R ") {
					return ls[i]
				}
				if strings.HasPrefix(ls[i], "S ") {
					break
				}
			}
			return "<none>"
		}
		r1, r2 := "<none>", "<none>"
		if kind == "success" {
			r1 = tail(out.String())
		}
		if kind2 == "success" {
			r2 = tail(out2.String())
		}
		if kind != kind2 || r1 != r2 {
			o.Class = "contains-disagrees-with-eq"
			o.Msg = fmt.Sprintf("operation #%d `%s`: contains ended with %s %s %q, the element-by-element == walk with %s %s %q", fatalAt, opText(fatalAt), kind, r1, msg, kind2, r2, msg2)
		}
		return finish()
	}
	if fatalAt >= 0 {
		o.Probes["index_before_start"]++
		if fatalInPattern {
			// the rule body before the failing pattern still ran to its end
			if li < len(lines) && lines[li] == "LAST" {
				li++
			} else {
				li = -1
			}
		}
		if kind != "RuntimeError" || li != len(lines) {
			o.Class = "index-before-start-accepted"
			o.Msg = fmt.Sprintf("operation #%d `%s` addresses an element before the start of the array: expected a runtime error and no further output, observed %s %q and %d further line(s)", fatalAt, opText(fatalAt), kind, msg, len(lines)-li)
		}
		return finish()
	}
	if kind != "success" || li >= len(lines) || lines[li] != "DONE" {
		o.Class, o.Msg = "run-failed", fmt.Sprintf("all operations matched but the run ended in %s: %s", kind, msg)
	}
	return finish()
}

// ---------------------------------------------------------------- generator

var listScalarLits = []string{"1", "2", "3", "10", "9", "0", "-5", "2.5", "100000", `"b"`, `"a"`, `"10"`, `"9"`, `"zz"`, `""`, `"B"`, "true", "false", "null", `num("nan")`, `num("inf")`, `num("-inf")`, "-0", "1000000000000000000000", `"1e1"`, `" 1"`}
var listSortableLits = []string{"1", "2", "3", "10", "9", "0", "-5", "2.5", "100000", `"b"`, `"a"`, `"10"`, `"9"`, `"zz"`, `"B"`, `"1"`}
var listContainerLits = []string{"[1]", "[]", `{"k": 1}`, "[[2], 3]"}

func genListLit(t *Tape, profile int) string {
	switch profile {
	case 0: // numbers only
		return []string{"1", "2", "3", "10", "9", "0", "-5", "2.5", "100000", "7", "7"}[t.Draw(11)]
	case 1: // numbers and strings (sortable)
		return listSortableLits[t.Draw(len(listSortableLits))]
	case 2: // scalars
		return listScalarLits[t.Draw(len(listScalarLits))]
	}
	if t.Chance(1, 3) {
		return listContainerLits[t.Draw(len(listContainerLits))]
	}
	return listScalarLits[t.Draw(len(listScalarLits))]
}

func genListCase(t *Tape, maxOps int, bulk bool) *ListCase {
	c := &ListCase{}
	profile := t.Weighted(2, 3, 3, 2)
	// some arrays are long and tie-heavy: equal sort keys with distinguishable
	// values (1 vs "1") only show an unstable sort beyond a dozen elements
	tieHeavy := profile == 1 && t.Chance(1, 2)
	for i := 0; i < 3; i++ {
		n := t.Draw(5)
		if tieHeavy && t.Chance(2, 3) {
			n = 13 + t.Draw(14)
		}
		parts := make([]string, n)
		for k := range parts {
			if tieHeavy {
				parts[k] = []string{"1", `"1"`, "2", `"2"`, "10", `"10"`, "9", `"9"`}[t.Draw(8)]
			} else {
				parts[k] = genListLit(t, profile)
				if _, special := specialLits[parts[k]]; special {
					parts[k] = "7" // initial arrays are JSON text
				}
			}
		}
		c.Init[i] = "[" + strings.Join(parts, ", ") + "]"
	}
	m, _ := c.initModel()
	n := 3 + t.Draw(maxOps)
	for tries := 0; len(c.Ops) < n && tries < n*6; tries++ {
		op := LOp{Arr: t.Draw(3)}
		ln := len(m.lists[op.Arr])
		bw := 0
		if bulk {
			bw = 6
		}
		switch t.Weighted(8, 5, 5, 3, 4, 4, 4, 3, 8, 1, 2, bw, bw, bw, 2, 2, 2, 2) {
		case 17:
			op.Kind, op.Lit = "elem-push", genListLit(t, profile)
		case 15:
			op.Kind, op.Nested, op.Idx = "self-rhs", []string{"len", "last", "lastplus"}[t.Draw(3)], t.Draw(3)
		case 16:
			op.Kind, op.Nested, op.Idx, op.Lit = "sort-keep", []string{"set", "incr", "pop", "popfirst", "set"}[t.Draw(5)], t.Draw(8), listSortableLits[t.Draw(len(listSortableLits))]
		case 14:
			op.Kind, op.Lit, op.Idx = "lit-assign", listScalarLits[t.Draw(len(listScalarLits))], t.Draw(ln+1)-1
		case 11:
			op.Kind, op.Idx = "bulk-push", []int{20, 70, 300, 600, 1100}[t.Draw(5)]
		case 12:
			op.Kind, op.Idx = "bulk-pop", []int{5, 60, 290, 550, 1000}[t.Draw(5)]
		case 13:
			op.Kind, op.Idx = "bulk-popfirst", []int{5, 60, 290, 550, 1000}[t.Draw(5)]
		case 9:
			op.Kind = "contains-unset"
		case 10:
			op.Kind = "sort-store"
		case 0:
			op.Kind, op.Lit = "push", genListLit(t, profile)
		case 1:
			op.Kind = "pop"
		case 2:
			op.Kind = "popfirst"
		case 3:
			op.Kind = "length"
		case 4:
			op.Kind = "get"
			switch t.Weighted(3, 3, 1) {
			case 0:
				op.Idx = t.Draw(ln + 1)
			case 1:
				if ln > 0 {
					op.Idx = -1 - t.Draw(ln)
				}
			default:
				op.Idx = ln + t.Draw(3)
			}
		case 5:
			op.Kind, op.Lit = "set", genListLit(t, profile)
			switch t.Weighted(3, 3, 2) {
			case 0:
				if ln > 0 {
					op.Idx = t.Draw(ln)
				}
			case 1:
				if ln > 0 {
					op.Idx = -1 - t.Draw(ln)
				}
			default:
				op.Idx = ln + t.Draw(3)
				if t.Chance(1, 4) {
					// a long gap (the padding must be nulls whatever was popped before)
					op.Idx = ln + 7 + t.Draw(6)
				}
			}
		case 6:
			op.Kind, op.Lit = "contains", listScalarLits[t.Draw(len(listScalarLits))]
		case 7:
			op.Kind = "sort"
		default:
			op.Kind = "nested"
			op.Other = t.Draw(3)
			op.Nested = []string{"push-pop", "push-popfirst", "push-length", "push-pushlen", "push-sortlen", "contains-pop", "set-length", "push-selflen", "push-get", "set-get"}[t.Draw(10)]
			if op.Nested == "push-get" {
				op.Idx = t.Draw(len(m.lists[op.Other])+4) - 1
			}
			if op.Nested == "set-get" {
				op.Idx = t.Draw(ln + 1)
			}
			op.Lit, op.Lit2 = genListLit(t, profile), genListLit(t, profile)
		}
		// dry run on a copy of the model
		cp := *m
		for i := range cp.lists {
			cp.lists[i] = append([]HV(nil), m.lists[i]...)
		}
		if _, err := cp.step(&op); err != nil {
			continue
		}
		m.step(&op)
		c.Ops = append(c.Ops, op)
	}
	if t.Chance(1, 4) {
		c.Passes = 2 + t.Draw(2)
	}
	if t.Chance(1, 10) {
		// closing operation (single pass: the model does not follow the two endings further)
		op := LOp{Arr: t.Draw(3), Other: t.Draw(3), Kind: "pop-push-self"}
		cp := *m
		for i := range cp.lists {
			cp.lists[i] = append([]HV(nil), m.lists[i]...)
		}
		if _, err := cp.step(&op); err == nil {
			c.Ops = append(c.Ops, op)
			c.Passes = 0
			return c
		}
	}
	switch t.Weighted(8, 2, 3) {
	case 1:
		kind := "before-start"
		if t.Chance(1, 2) {
			kind = "before-start-pattern"
		}
		c.Ops = append(c.Ops, LOp{Arr: []int{0, 2}[t.Draw(2)], Kind: kind, Idx: t.Draw(4)})
	case 2:
		// make sure containers and scalars are mixed: push a few of each first
		a := t.Draw(3)
		for k := t.Draw(4); k > 0; k-- {
			lit := listScalarLits[t.Draw(len(listScalarLits))]
			if t.Chance(1, 3) {
				lit = listContainerLits[t.Draw(len(listContainerLits))]
			}
			op := LOp{Arr: a, Kind: "push", Lit: lit}
			if _, err := m.step(&op); err == nil {
				c.Ops = append(c.Ops, op)
			}
		}
		c.Ops = append(c.Ops, LOp{Arr: a, Kind: "contains-mixed", Lit: listScalarLits[t.Draw(len(listScalarLits))]})
	}
	return c
}

func registerC15() {
	mk := func(name string, count map[string]int, maxOps int) *Workload {
		bulk := name == "bulk-histories"
		return &Workload{
			Name:  name,
			Count: func(tier string) int { return count[tier] },
			Gen: func(i int, t *Tape, tier string) any {
				if tier == "thorough" {
					return genListCase(t, maxOps*5/2, bulk)
				}
				return genListCase(t, maxOps, bulk)
			},
			Run:      func(c any, keep bool) Outcome { return runListCase(c.(*ListCase), keep) },
			New:      func() any { return &ListCase{} },
			Simplify: simplifyList,
		}
	}
	register(&Property{
		ID:    "C15",
		Level: "exploration",
		Rule:  "seeded histories of 3-60 operations (push, pop, popfirst, length, in-range / negative / past-the-end index read and write, contains, sort, and method calls nested in method arguments incl. the same method on another array) interleaved on three arrays held by a variable, an object member and a document field; after every operation the result and all three arrays are printed and compared with an ideal-list model; contains is compared with the SUT's own == applied to each element in order; an index before the start must end the run with a runtime error. Distinct = distinct (set of operation kinds, length bucket); non-trivial = at least two operations.",
		Assumptions: []string{
			"no fault or interleaving dimension exists for this property; what the harness contributes is seeded history search, per-step model conformance, minimisation and replay",
			"each array is only ever addressed through the one name that holds it (aliasing is C09's subject, known finding K1)",
			"contains only on arrays of scalars with a scalar argument (== on containers is an error); never with an unset variable",
			"sort only on arrays of numbers and strings (the string form of booleans, null and containers is not fixed by the statement)",
			"arity errors are not generated",
		},
		Components: libComponents,
		Workloads: []*Workload{
			mk("histories", map[string]int{"quick": 300000, "thorough": 8000000}, 16),
			mk("long-histories", map[string]int{"quick": 25000, "thorough": 600000}, 60),
			mk("bulk-histories", map[string]int{"quick": 2500, "thorough": 100000}, 10),
		},
	})
}
