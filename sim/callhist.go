package main

// Call-history world (C08). There is no fault or interleaving here: the
// property is quantified over histories of completed calls, and its known
// failure mode is a leak per input element. A seeded function library and a
// dispatching rule set are driven by long seeded streams of operation
// elements; every element's output line is predicted by a small model of
// positional/by-value binding, return values, globals and scope, and the
// frame-depth hook gives the conservation invariant.

import (
	"bytes"
	"encoding/json"
	"fmt"
	"regexp"
	"strings"

	lang "github.com/alligator/jqawk/src"
)

type CallOp struct {
	Op string          `json:"op"`
	A  json.RawMessage `json:"a"` // JSON array of arguments
}

type CallCase struct {
	Arity    int      `json:"arity"`    // parameters of fid (0..3)
	LoopKind string   `json:"loopkind"` // for | while | forin | match | matchblock | if
	Ops      []CallOp `json:"ops"`
	Chunk    int      `json:"chunk"` // elements per top-level array value (0: all in one)
	// user functions that carry the name of a built-in function (bit 0: rec is
	// called num, bit 1: setg is called json, bit 2: viaother is called printf):
	// a declared function is a user function whatever its name
	Builtins int `json:"builtins,omitempty"`
}

var builtinRenames = []struct {
	re *regexp.Regexp
	to string
}{
	{regexp.MustCompile(`\brec\(`), "num("},
	{regexp.MustCompile(`\bsetg\(`), "json("},
	{regexp.MustCompile(`\bviaother\(`), "printf("},
}

var callParams = []string{"pa", "pb", "pc"}

// names that must not be visible after the calls/cases that created them
var callProbeNames = []string{"pa", "pb", "pc", "la", "li", "lx", "mq", "ma", "loc1", "loc2", "ga", "ca", "va", "rn", "en", "on", "na", "ra", "loc3", "da", "dx", "dq", "oa", "qa", "ma1", "ma2", "mo", "mb1", "mb2", "qb", "loc4", "loc5", "wn", "wx", "lq", "lm1", "lother", "lb", "lbo", "ml1", "mlo", "wa", "t1", "t2", "t3", "fa", "fl", "fr", "ns", "nc", "sa", "acc", "sacc", "lacc", "fo", "fs", "fn", "mz1", "mz2", "mz3", "mz4", "show2", "mn1", "mn2", "mno", "zs", "zq", "rv1", "ak", "mfv", "mf1", "mcreated", "br", "brl", "bx", "bq"}

func (c *CallCase) program() string {
	var sb strings.Builder
	params := callParams[:c.Arity]
	sb.WriteString("function fid(" + strings.Join(params, ", ") + ") { return [" + strings.Join(params, ", ") + "] }\n")
	sb.WriteString("function loopret(la) {\n")
	switch c.LoopKind {
	case "for":
		sb.WriteString("  for (li = 0; li < 3; li++) { if (li == 1) { return [la, li] } }\n  return \"no\"\n")
	case "while":
		sb.WriteString("  li = 0\n  while (li < 3) { li++\n if (li == 2) { return [la, li] } }\n  return \"no\"\n")
	case "forin":
		sb.WriteString("  for (lx in [7, 8, 9]) { if (lx == 8) { return [la, lx] } }\n  return \"no\"\n")
	case "forinstr":
		sb.WriteString("  for (lx in \"abc\") { if (lx == \"b\") { return [la, lx] } }\n  return \"no\"\n")
	case "forinobj":
		sb.WriteString("  for (lx, li in {p: 1, q: 2}) { if (li == 2) { return [la, lx] } }\n  return \"no\"\n")
	case "nested":
		sb.WriteString("  for (lx in [1, 2]) { li = 0\n while (li < 3) { li++\n if (lx == 2) { if (li == 2) { return [la, li] } } } }\n  return \"no\"\n")
	case "match":
		sb.WriteString("  return match (la) { mq => [mq, 1] }\n")
	case "matchblock":
		sb.WriteString("  match (la) { mq => { return [mq, 2] } }\n  return \"no\"\n")
	default:
		sb.WriteString("  if (la is number) { return [la, \"n\"] } else { return [la, \"o\"] }\n")
	}
	sb.WriteString("}\n")
	sb.WriteString(`function mklocal(ma) { loc1 = ma
 loc2 = [ma]
 return loc2 }
function setg(ga) { G = ga
 return G }
function clobber(ca) { ca = 99
 return ca }
function viaother(va) { return fid(va, va) }
function rec(rn) { if (rn == 0) { return 0 }
 return 1 + rec(rn - 1) }
function ev(en) { if (en == 0) { return "e" }
 return od(en - 1) }
function od(on) { if (on == 0) { return "o" }
 return ev(on - 1) }
function donext(na) { NX = na
 next }
function donext2(qa) { return [donext(qa)] }
function noret(ra) { loc3 = ra }
function deepexit(da) { for (dx in [1]) { match (da) { dq => { exit } } } }
function outer(oa) { return [oa, mklocal(oa), clobber(oa)] }
function awkloc(wa, t1, t2, t3) { t2 = [wa]
 t1 = 5
 return [wa, t1, t2, t3] }
function fresh(fa) { if (fl is unknown) { fr = "fresh" } else { fr = "stale" }
 fl = fa
 return fr }
function nextstr(ns) { for (nc in "xyz") { if (nc == "y") { NX = ns
 next } } }
function usefn(fid, clobber, show2) { clobber = [fid]
 return [fid, clobber, show2] }
function mkfresh() { fa = []
 fa.push(1)
 fo = {}
 fo.k = "v"
 fs = "s"
 fs = fs + "t"
 fn = 0
 fn++
 return [fa.length(), fo.length(), fs, fn] }
function shadow(sa, G) { G = [sa]
 return G }
function dollar($index, $file) { return [$index, $file] }
function dsum($index) { if ($index == 0) { return 0 }
 return $index + dsum($index - 1) }
function mfirst(mfv) { match (mfv) { mf1 => { mcreated = mf1 } }
 return 1 }
function mpeek() { return mcreated is unknown }
function getn() { return RN }
function addn(ak) { RN = RN + ak
 return RN }
function getg() { return G }
function mark() { zs.flag = 1 }
function peekz() { return zq is unknown }
function proc(qb) { loc4 = clobber(qb)
 loc5 = fid(qb) }
function walk(wn) { if (wn is array) { for (wx in wn) { walk(wx) } } else { return wn } }
function litmatch(lq) { return match (lq) { [] => "e", [0, 0] => "o", [1, [2, 3]] => "d", [lm1, 9] => ["n", lm1], lother => "x" } }
function bareret(br) { brl = clobber(br)
 if (br is number) { return }
 for (bx in [1]) { match (clobber(br)) { bq => { return } } }
 return "NOT REACHED" }
function litblock(lb) { match (lb) { [] => { LB = "e" }, [0, 0] => { LB = "o" }, lbo => { LB = "x" } }
 return LB }
BEGIN { G = "g0"
 RN = 10
 NX = "n0"
 LB = "l0"
 step = 0 }
{ step++ }
$.op == "id0" { print step, fid() }
$.op == "id1" { print step, fid($.a[0]) }
$.op == "id2" { print step, fid($.a[0], $.a[1]) }
$.op == "id3" { print step, fid($.a[0], $.a[1], $.a[2]) }
$.op == "id4" { print step, fid($.a[0], $.a[1], $.a[2], $.a[3]) }
$.op == "loopret" { print step, loopret($.a[0]) }
$.op == "mklocal" { print step, mklocal($.a[0]) }
$.op == "setg" { print step, setg($.a[0]) }
$.op == "readg" { print step, G, NX }
$.op == "clobber" { v = $.a[0]
 r = clobber(v)
 print step, r, v }
$.op == "viaother" { print step, viaother($.a[0]) }
$.op == "rec" { print step, rec($.a[0]) }
$.op == "mutual" { print step, ev($.a[0]) }
$.op == "donext" { print step, "before"
 donext($.a[0])
 print step, "NOT REACHED" }
$.op == "donext2" { print step, "before2"
 x2 = donext2($.a[0])
 print step, "NOT REACHED" }
$.op == "noret" { print step, noret($.a[0]) }
$.op == "outer" { print step, outer($.a[0]) }
$.op == "mexpr" { print step, match ($.a[0]) { [ma1, ma2] => [ma2, ma1], 1 => "one", mo => ["o", mo] } }
$.op == "mblock" { mres = "none"
 match ($.a[0]) { [mb1] => { mres = mb1 }, mb2 => { mres = ["s", mb2] } }
 print step, mres }
$.op == "pat" && clobber($.a[0]) == 99 { print step, "pat" }
$.op == "awkloc0" { print step, awkloc() }
$.op == "awkloc1" { print step, awkloc($.a[0]) }
$.op == "awkloc2" { print step, awkloc($.a[0], $.a[1]) }
$.op == "fresh" { print step, fresh($.a[0]) }
$.op == "fresh2" { print step, fresh($.a[0]), fresh($.a[1]) }
$.op == "nextstr" { print step, "beforestr"
 nextstr($.a[0])
 print step, "NOT REACHED" }
$.op == "mstale" { print step, match ($.a[0]) { [G, 1] => "first", [NX, "two"] => "second", [mz1, mz2] => [mz1, G, NX], mz4 => [G, NX] } }
$.op == "pfname" { print step, usefn($.a[0]), clobber(1), fid(), show2 is unknown }
$.op == "argorder" { print step, fid(G, setg($.a[0]), G), G }
$.op == "argincr" { cnt = 5
 print step, fid(cnt, cnt++, cnt), cnt }
$.op == "mlet" { mres2 = "none"
 mres3 = "none"
 mres4 = "none"
 match (0) { acc => { acc += 3
 acc++
 mres2 = acc } }
 match ("s") { sacc => { sacc = sacc + "x"
 mres3 = sacc } }
 match ([1]) { [lacc] => { lacc += 1
 mres4 = lacc } }
 print step, mres2, mres3, mres4 }
$.op == "mkfresh" { print step, mkfresh() }
$.op == "shadow" { print step, shadow($.a[0]), G }
$.op == "clobmiss" { r1 = clobber($.a[7])
 r2 = clobber($.nokey)
 r3 = clobber($.a[0].deep.er)
 print step, r1, r2, r3, $.a.length(), $.nokey, $.a[0] }
$.op == "nextexpr" { print step, "beforex"
 xx = [1, [donext2($.a[0]), 2]] + 1
 print step, "NOT REACHED" }
$.op == "mnext" { print step, "beforem"
 mnr = match ($.a[0]) { [mn1, mn2] => donext(mn1), mno => donext2(mno) }
 print step, "NOT REACHED" }
$.op == "retval" { RN = 10
 print step, getn() + addn(5), getn(), addn(1)
 match (getg()) { rv1 => { rv1 = "changed" } }
 print step, G }
$.op == "leafmark" { print step, mark(), peekz() }
$.op == "dollarparams" { print step, dollar($.a[0], $.a[1]), dsum(3), $file }
$.op == "mfirst" { print step, mfirst($.a[0]), mpeek() }
$.op == "proc" { print step, proc($.a[0]) }
$.op == "walk" { print step, walk($.a[0]) }
$.op == "mlit" { print step, match ($.a[0]) { [] => "e", [0, 0] => "o", [1, [2, 3]] => "d", [ml1, 9] => ["n", ml1], mlo => "x" } }
$.op == "litmatch" { print step, litmatch($.a[0]) }
$.op == "litblock" { print step, litblock($.a[0]) }
$.op == "bareret" { print step, bareret($.a[0]), [clobber(1), bareret($.a[1])] }
$.op == "exit" { print step, "bye"
 deepexit(1)
 print step, "NOT REACHED" }
{ print step, "eor" }
`)
	sb.WriteString("END { print \"probe\"")
	for _, n := range callProbeNames {
		sb.WriteString(", " + n + " is unknown")
	}
	sb.WriteString(" }\n")
	text := sb.String()
	for i, r := range builtinRenames {
		if c.Builtins&(1<<i) != 0 {
			text = r.re.ReplaceAllString(text, r.to)
		}
	}
	return text
}

func (c *CallCase) input() []byte {
	var sb bytes.Buffer
	chunk := c.Chunk
	if chunk <= 0 {
		chunk = len(c.Ops) + 1
	}
	for i := 0; i < len(c.Ops); i += chunk {
		end := i + chunk
		if end > len(c.Ops) {
			end = len(c.Ops)
		}
		sb.WriteString("[")
		for j := i; j < end; j++ {
			if j > i {
				sb.WriteString(",")
			}
			a := c.Ops[j].A
			if len(a) == 0 {
				a = json.RawMessage("[]")
			}
			fmt.Fprintf(&sb, "{\"op\":%q,\"a\":%s}", c.Ops[j].Op, a)
		}
		sb.WriteString("]\n")
	}
	return sb.Bytes()
}

// model: expected stdout; recDepths: indices of rec ops whose result the model does not predict
func (c *CallCase) model() (lines []string, exited bool, ok bool) {
	G, NX := &JVal{Kind: 's', Str: "g0"}, &JVal{Kind: 's', Str: "n0"}
	step := 0
	arr := func(vs ...*JVal) *JVal { return &JVal{Kind: 'a', Arr: vs} }
	str := func(s string) *JVal { return &JVal{Kind: 's', Str: s} }
	num := func(n float64) *JVal { return &JVal{Kind: 'n', Num: n} }
	p := func(v *JVal) string { s, _ := pretty(v, false); return s }
	ok = true
	for _, op := range c.Ops {
		step++
		var args []*JVal
		if len(op.A) > 0 {
			r := ScanStream(op.A)
			if r.Status != RefClean || len(r.Values) != 1 || r.Values[0].V.Kind != 'a' {
				return nil, false, false
			}
			args = r.Values[0].V.Arr
		}
		arg := func(i int) *JVal {
			if i < len(args) {
				return args[i]
			}
			return jNull
		}
		emit := func(s string) { lines = append(lines, fmt.Sprintf("%d %s", step, s)) }
		skipEOR := false
		switch op.Op {
		case "id0", "id1", "id2", "id3", "id4":
			n := int(op.Op[2] - '0')
			bound := make([]*JVal, c.Arity)
			for i := range bound {
				if i < n {
					bound[i] = arg(i)
				} else {
					bound[i] = jNull
				}
			}
			emit(p(arr(bound...)))
		case "loopret":
			a := arg(0)
			switch c.LoopKind {
			case "for":
				emit(p(arr(a, num(1))))
			case "while":
				emit(p(arr(a, num(2))))
			case "forin":
				emit(p(arr(a, num(8))))
			case "forinstr":
				emit(p(arr(a, str("b"))))
			case "forinobj":
				emit(p(arr(a, str("q"))))
			case "nested":
				emit(p(arr(a, num(2))))
			case "match":
				emit(p(arr(a, num(1))))
			case "matchblock":
				emit(p(arr(a, num(2))))
			default:
				if a.Kind == 'n' {
					emit(p(arr(a, str("n"))))
				} else {
					emit(p(arr(a, str("o"))))
				}
			}
		case "mklocal":
			emit(p(arr(arg(0))))
		case "setg":
			G = arg(0)
			emit(p(G))
		case "readg":
			emit(p(G) + " " + p(NX))
		case "clobber":
			emit("99 " + p(arg(0)))
		case "viaother":
			bound := make([]*JVal, c.Arity)
			for i := range bound {
				if i < 2 {
					bound[i] = arg(0)
				} else {
					bound[i] = jNull
				}
			}
			emit(p(arr(bound...)))
		case "rec":
			if arg(0).Kind != 'n' {
				return nil, false, false
			}
			emit(fmtNum(arg(0).Num))
		case "mutual":
			if arg(0).Kind != 'n' {
				return nil, false, false
			}
			if int(arg(0).Num)%2 == 0 {
				emit("e")
			} else {
				emit("o")
			}
		case "donext":
			emit("before")
			NX = arg(0)
			skipEOR = true
		case "donext2":
			emit("before2")
			NX = arg(0)
			skipEOR = true
		case "noret":
			emit("null")
		case "outer":
			emit(p(arr(arg(0), arr(arg(0)), num(99))))
		case "mexpr":
			a := arg(0)
			switch {
			case a.Kind == 'a' && len(a.Arr) == 2:
				emit(p(arr(a.Arr[1], a.Arr[0])))
			case a.Kind == 'n' && a.Num == 1:
				emit("one")
			case a.Kind == 'n' || a.Kind == 'z' || (a.Kind == 's' && a.Str != "" && (a.Str[0] < '0' || a.Str[0] > '9')):
				emit(p(arr(str("o"), a)))
			default:
				return nil, false, false
			}
		case "mblock":
			a := arg(0)
			if a.Kind == 'a' && len(a.Arr) == 1 {
				emit(p(a.Arr[0]))
			} else {
				emit(p(arr(str("s"), a)))
			}
		case "pat":
			emit("pat")
		case "awkloc0":
			emit(p(arr(jNull, num(5), arr(jNull), jNull)))
		case "awkloc1":
			emit(p(arr(arg(0), num(5), arr(arg(0)), jNull)))
		case "awkloc2":
			// the second argument is overwritten by the callee, the others keep their binding
			emit(p(arr(arg(0), num(5), arr(arg(0)), jNull)))
		case "fresh":
			emit("fresh")
		case "fresh2":
			emit("fresh fresh")
		case "nextstr":
			emit("beforestr")
			NX = arg(0)
			skipEOR = true
		case "mstale":
			// names bound by a case that went on to fail must not leak into the case that matches:
			// G and NX in the bodies are the globals
			a := arg(0)
			isArr2 := a.Kind == 'a' && len(a.Arr) == 2
			switch {
			case isArr2 && a.Arr[1].Kind == 'n' && a.Arr[1].Num == 1:
				emit("first")
			case isArr2 && a.Arr[1].Kind == 's' && a.Arr[1].Str == "two":
				emit("second")
			case isArr2 && a.Arr[1].Kind != 'a' && a.Arr[1].Kind != 'o':
				emit(p(arr(a.Arr[0], G, NX)))
			case a.Kind != 'a':
				emit(p(arr(G, NX)))
			default:
				return nil, false, false
			}
		case "pfname":
			// parameters, loop variables named like declared functions; the functions stay callable
			nulls := make([]*JVal, c.Arity)
			for i := range nulls {
				nulls[i] = jNull
			}
			emit(p(arr(arg(0), arr(arg(0)), jNull)) + " 99 " + p(arr(nulls...)) + " true")
		case "argorder":
			// arguments are bound to the values they had when each was evaluated, left to right
			old := G
			G = arg(0)
			bound := []*JVal{old, G, G}
			if c.Arity < 3 {
				bound = bound[:c.Arity]
			}
			emit(p(arr(bound...)) + " " + p(G))
		case "argincr":
			bound := []*JVal{num(5), num(5), num(6)}
			if c.Arity < 3 {
				bound = bound[:c.Arity]
			}
			emit(p(arr(bound...)) + " 6")
		case "mlet":
			// names bound to literals: the literal is the same every time
			emit("4 sx 2")
		case "mkfresh":
			emit(p(arr(num(1), num(1), str("st"), num(1))))
		case "shadow":
			// the omitted second parameter is a fresh local named like the global G
			emit(p(arr(arg(0))) + " " + p(G))
		case "clobmiss":
			// missing index / member / chain passed to a function that assigns its parameter: the caller's data stay as they are
			a0 := arg(0)
			if a0.Kind != 'z' && a0.Kind != 'o' {
				return nil, false, false
			}
			emit("99 99 99 " + fmt.Sprint(len(args)) + " null " + p(a0))
		case "nextexpr":
			emit("beforex")
			NX = arg(0)
			skipEOR = true
		case "retval":
			// what a call yields is a value: it does not change when the variable
			// named in the return statement changes later in the same expression,
			// and changing it does not change the variable
			emit("25 15 16")
			emit(p(G))
		case "dollarparams":
			// parameters spelled like the runtime's own variables are parameters
			emit(p(arr(arg(0), arg(1))) + " 6 ops.json")
		case "mfirst":
			// a variable first assigned in a case body inside a call ends with the call
			emit("1 true")
		case "leafmark":
			// names a parameterless function creates by storing a member or by
			// merely reading them are the callee's
			// (the rule itself does not mention them: reading a name creates it where it is read)
			emit("null true")
		case "mnext":
			// next raised by a function called from an expression-bodied case that binds names
			emit("beforem")
			if a := arg(0); a.Kind == 'a' && len(a.Arr) == 2 {
				NX = a.Arr[0]
			} else {
				NX = a
			}
			skipEOR = true
		case "proc":
			emit("null")
		case "bareret":
			// a return without a value yields null whatever an earlier, completed call returned
			emit("null " + p(arr(num(99), jNull)))
		case "walk":
			// only a non-array argument is returned; walking an array runs off the end of the body
			if arg(0).Kind == 'a' {
				emit("null")
			} else {
				emit(p(arg(0)))
			}
		case "mlit", "litmatch", "litblock":
			a := arg(0)
			res := ""
			switch {
			case a.Kind == 'a' && len(a.Arr) == 0:
				res = "e"
			case a.Kind == 'a' && len(a.Arr) == 2 && a.Arr[0].Kind == 'n' && a.Arr[1].Kind == 'n' && a.Arr[0].Num == 0 && a.Arr[1].Num == 0:
				res = "o"
			case a.Kind != 'a':
				res = "x"
			default:
				// array subjects are drawn from a fixed table (see genCallOp)
				key, _ := pretty(a, false)
				switch key {
				case "[1, [2, 3]]":
					res = "d"
				case "[5, 9]":
					res = "n5"
				case "[0, 1]", "[7]", "[1, 2, 3]":
					res = "x"
				case "[3, 9]":
					res = "n3"
				default:
					return nil, false, false
				}
			}
			if op.Op == "litblock" {
				if res == "d" || res == "n5" || res == "n3" {
					res = "x"
				}
				emit(res)
			} else if res == "n5" {
				emit(p(arr(str("n"), num(5))))
			} else if res == "n3" {
				emit(p(arr(str("n"), num(3))))
			} else {
				emit(res)
			}
		case "exit":
			emit("bye")
			return lines, true, true
		default:
			return nil, false, false
		}
		if !skipEOR {
			emit("eor")
		}
	}
	probe := "probe"
	for range callProbeNames {
		probe += " true"
	}
	lines = append(lines, probe)
	return lines, false, true
}

func execCall(prog string, input []byte) (kind, msg, stdout string, depth int) {
	lang.VerifResetProcessState()
	var out bytes.Buffer
	depth = -1
	func() {
		defer func() {
			if r := recover(); r != nil {
				kind, msg = "panic", fmt.Sprint(r)
			}
		}()
		ev, err := lang.EvalProgram(prog, []lang.InputFile{{Name: "ops.json", Reader: bytes.NewReader(input)}}, nil, &out, false)
		kind, msg = classifyErr(err)
		if ev != nil {
			depth = ev.VerifFrameDepth()
		}
	}()
	return kind, msg, out.String(), depth
}

func runCallCase(c *CallCase, keep bool) Outcome {
	log := newEventLog(keep)
	o := Outcome{Probes: map[string]int{}}
	finish := func() Outcome {
		o.LogHash, o.Log, o.Steps = log.Hash(), log.lines, len(c.Ops)
		return o
	}
	prog := c.program()
	want, exited, ok := c.model()
	if !ok {
		o.Skipped = "operation outside the model's domain"
		return finish()
	}
	// a trailing deep recursion is compared run against run, not predicted
	var tail *CallOp
	ops := c.Ops
	if n := len(ops); n > 0 && ops[n-1].Op == "rec" {
		r := ScanStream(ops[n-1].A)
		if len(r.Values) == 1 && len(r.Values[0].V.Arr) == 1 && r.Values[0].V.Arr[0].Num > 1000 {
			tail = &ops[n-1]
		}
	}
	kind, msg, stdout, depth := execCall(prog, c.input())
	log.add('C', 0, "RUN ops=%d kind=%s msg=%q depth=%d stdout_len=%d", len(c.Ops), kind, msg, depth, len(stdout))
	if keep {
		log.lines = append(log.lines, "  program:\n"+prog, "  stdout (head): "+truncate(stdout, 400))
	}
	o.Nontrivial = len(c.Ops) >= 2
	kinds := map[string]bool{}
	for _, op := range c.Ops {
		kinds[op.Op] = true
		if op.Op == "donext" || op.Op == "donext2" {
			o.Probes["next_in_function"]++
		}
		if op.Op == "mexpr" || op.Op == "mblock" {
			o.Probes["match_completed"]++
		}
	}
	ks := make([]string, 0, len(kinds))
	for k := range kinds {
		ks = append(ks, k)
	}
	sortStrings(ks)
	o.Shape = fmt.Sprintf("%d|%s|%d|%s", c.Arity, c.LoopKind, bucketLen(len(c.Ops)), strings.Join(ks, ","))
	if len(c.Ops) > 4200 {
		o.Probes["history_over_4200"]++
	}
	if kind == "panic" || kind == "foreign" {
		o.Class, o.Msg = "panic", kind+": "+msg
		return finish()
	}
	gotLines := strings.Split(strings.TrimSuffix(stdout, "\n"), "\n")
	if stdout == "" {
		gotLines = nil
	}
	if tail != nil {
		// everything before the tail's line is predicted; the tail itself is compared with a fresh run
		wantHead := want[:len(want)-3] // rec line, eor line, probe line
		kind2, msg2, stdout2, _ := execCall(prog, (&CallCase{Ops: []CallOp{*tail}}).input())
		log.add('C', 0, "TAIL-ALONE kind=%s msg=%q", kind2, msg2)
		o.Probes["deep_recursion_tail"]++
		if len(gotLines) < len(wantHead) || !equalLines(gotLines[:len(wantHead)], wantHead) {
			o.Class, o.Msg = "call-result-mismatch", diffLines(wantHead, gotLines)
			return finish()
		}
		rest := gotLines[len(wantHead):]
		alone := strings.Split(strings.TrimSuffix(stdout2, "\n"), "\n")
		// compare outcome kind and the value printed for the recursion (step numbers differ)
		valOf := func(ls []string) string {
			if len(ls) == 0 || ls[0] == "" {
				return "<none>"
			}
			f := strings.SplitN(ls[0], " ", 2)
			if len(f) == 2 {
				return f[1]
			}
			return ls[0]
		}
		if kind != kind2 || valOf(rest) != valOf(alone) {
			o.Class = "recursion-limit-depends-on-history"
			o.Msg = fmt.Sprintf("recursing to the same depth gave %s/%q as the first operation of a fresh run but %s/%q after %d completed operations", kind2, valOf(alone), kind, valOf(rest), len(c.Ops)-1)
		}
		return finish()
	}
	if kind != "success" {
		o.Class = "history-killed-run"
		o.Msg = fmt.Sprintf("a history of %d completed operations ended in %s: %s (output so far: %d lines)", len(c.Ops), kind, msg, len(gotLines))
		if len(gotLines) > 0 && !equalLines(gotLines, want[:min(len(gotLines), len(want))]) {
			o.Msg += "\n" + diffLines(want, gotLines)
		}
		return finish()
	}
	if !equalLines(gotLines, want) {
		o.Class, o.Msg = "call-result-mismatch", diffLines(want, gotLines)
		// a failing probe line is the visibility clause
		if len(gotLines) == len(want) && equalLines(gotLines[:len(want)-1], want[:len(want)-1]) && !exited {
			o.Class = "callee-name-visible-after-call"
			o.Msg = "END probe (each must be true: `name is unknown`):\n names:    " + strings.Join(callProbeNames, " ") + "\n observed: " + gotLines[len(gotLines)-1]
		}
		return finish()
	}
	if !exited && depth != 0 {
		o.Class, o.Msg = "frame-residue", fmt.Sprintf("after a normally completed run the frame stack is %d deep instead of back at the rule level", depth)
	}
	return finish()
}

func min(a, b int) int {
	if a < b {
		return a
	}
	return b
}

func bucketLen(n int) int {
	switch {
	case n < 4:
		return n
	case n < 16:
		return 8
	case n < 100:
		return 50
	case n < 1000:
		return 500
	}
	return 5000
}

func sortStrings(s []string) {
	for i := 1; i < len(s); i++ {
		for j := i; j > 0 && s[j] < s[j-1]; j-- {
			s[j], s[j-1] = s[j-1], s[j]
		}
	}
}

func equalLines(a, b []string) bool {
	if len(a) != len(b) {
		return false
	}
	for i := range a {
		if a[i] != b[i] {
			return false
		}
	}
	return true
}

func diffLines(want, got []string) string {
	for i := 0; i < len(want) || i < len(got); i++ {
		w, g := "<missing>", "<missing>"
		if i < len(want) {
			w = want[i]
		}
		if i < len(got) {
			g = got[i]
		}
		if w != g {
			return fmt.Sprintf("first difference at output line %d (of %d expected, %d observed):\n expected: %s\n observed: %s", i+1, len(want), len(got), truncate(w, 300), truncate(g, 300))
		}
	}
	return "outputs equal"
}

// ---------------------------------------------------------------- generator

var callScalars = []string{"1", "2", "7", "0", "42", `"s"`, `"abc"`, `"x y"`, "true", "false", "null", "3.5", "-4"}
var callContainers = []string{"[1,2]", "[5]", `["a","b"]`, "[]", `{"k":1}`, "[[1],2]", "[1,2,3]"}

func genCallArg(t *Tape) string {
	if t.Chance(1, 4) {
		return callContainers[t.Draw(len(callContainers))]
	}
	return callScalars[t.Draw(len(callScalars))]
}

func genCallOp(t *Tape) CallOp {
	ops := []string{"id0", "id1", "id2", "id3", "id4", "loopret", "mklocal", "setg", "readg", "clobber", "viaother", "rec", "mutual", "donext", "donext2", "noret", "outer", "mexpr", "mblock", "pat", "proc", "walk", "mlit", "litmatch", "litblock", "awkloc0", "awkloc1", "awkloc2", "fresh", "fresh2", "nextstr", "shadow", "clobmiss", "nextexpr", "argorder", "argincr", "mlet", "mkfresh", "mstale", "pfname", "mnext", "retval", "leafmark", "dollarparams", "mfirst", "bareret"}
	w := []int{1, 2, 2, 2, 2, 3, 3, 2, 2, 3, 2, 2, 1, 3, 2, 2, 2, 4, 3, 2, 3, 2, 3, 3, 2, 1, 2, 2, 4, 2, 2, 3, 3, 2, 3, 2, 4, 3, 4, 3, 3, 3, 3, 3, 3, 3}
	op := ops[t.Weighted(w...)]
	var args []string
	switch op {
	case "rec":
		args = []string{fmt.Sprint([]int{0, 1, 5, 30, 200, 1000}[t.Draw(6)])}
	case "mutual":
		args = []string{fmt.Sprint(t.Draw(40))}
	case "mexpr":
		args = []string{[]string{"1", "2", "[1,2]", `["a",[3]]`, `"str"`, "null", "5", "[9,8]"}[t.Draw(8)]}
	case "mblock":
		args = []string{[]string{"[1]", "2", `["q"]`, `"str"`, "[1,2]", "null", "[[3]]"}[t.Draw(7)]}
	case "mnext":
		args = []string{[]string{"[1,2]", "2", `["q","r"]`, `"str"`, "[1]", "null", "[[3],4]"}[t.Draw(7)]}
	case "mlit", "litmatch", "litblock":
		// subjects never put a container against a scalar literal (== on containers is an error)
		args = []string{[]string{"[]", "[0,0]", "[1,[2,3]]", "[5,9]", "[0,1]", "[7]", "[1,2,3]", "7", `"s"`, "null", "[3,9]"}[t.Draw(11)]}
	case "mstale":
		args = []string{[]string{"[7,1]", "[7,2]", `[7,"two"]`, `["q","r"]`, "3", `"s"`, "null", "[0,1]", "[4,null]"}[t.Draw(9)]}
	case "clobmiss":
		args = []string{[]string{"null", `{"k":1}`, "{}"}[t.Draw(3)]}
		for k := t.Draw(4); k > 0; k-- {
			args = append(args, genCallArg(t))
		}
	case "walk":
		args = []string{[]string{"[1,[2,3]]", "5", `"leaf"`, "[]", "[[1],[2]]", "null"}[t.Draw(6)]}
	default:
		n := t.Draw(5)
		for i := 0; i < n; i++ {
			args = append(args, genCallArg(t))
		}
	}
	return CallOp{Op: op, A: json.RawMessage("[" + strings.Join(args, ",") + "]")}
}

// genVeryLongCase: a hundred thousand and more completed operations of cheap
// kinds in one run: anything that is left behind per completed call, match,
// return or next (a frame, a counter, a slot) accumulates past every fixed budget.
func genVeryLongCase(t *Tape) *CallCase {
	c := &CallCase{Arity: t.Draw(4), LoopKind: []string{"for", "while", "forin", "match", "matchblock", "if", "forinstr"}[t.Draw(7)]}
	kinds := []string{"donext", "id1", "loopret", "mexpr", "mblock", "noret", "proc", "nextstr", "donext2", "clobber", "mlit", "nextexpr", "nextexpr", "litblock", "mnext", "bareret"}
	dom := kinds[t.Draw(len(kinds))]
	n := 110000 + t.Draw(30000)
	mk := func(k string) CallOp {
		switch k {
		case "mexpr":
			return CallOp{Op: k, A: []byte("[[1,2]]")}
		case "mblock":
			return CallOp{Op: k, A: []byte("[[1]]")}
		case "mlit":
			return CallOp{Op: k, A: []byte("[[0,0]]")}
		}
		return CallOp{Op: k, A: []byte("[1]")}
	}
	for i := 0; i < n; i++ {
		if i%16 == 15 {
			c.Ops = append(c.Ops, mk(kinds[t.Draw(len(kinds))]))
		} else {
			c.Ops = append(c.Ops, mk(dom))
		}
	}
	c.Chunk = 1000
	return c
}

func genCallCase(t *Tape, long bool) *CallCase {
	c := &CallCase{Arity: t.Draw(4), LoopKind: []string{"for", "while", "forin", "match", "matchblock", "if", "forinstr", "forinobj", "nested"}[t.Draw(9)]}
	n := 1 + t.Draw(30)
	if long {
		n = 4300 + t.Draw(1800)
	}
	if long {
		// long histories are dominated by a few operation kinds so that a leak per
		// completed call / match / next accumulates past any fixed frame budget
		dom := genCallOp(t)
		if dom.Op == "rec" || dom.Op == "mutual" {
			dom.A = json.RawMessage("[5]")
		}
		for i := 0; i < n; i++ {
			if t.Chance(3, 4) {
				c.Ops = append(c.Ops, dom)
			} else {
				c.Ops = append(c.Ops, genCallOp(t))
			}
		}
	} else {
		for i := 0; i < n; i++ {
			c.Ops = append(c.Ops, genCallOp(t))
		}
	}
	switch t.Weighted(3, 1, 1) {
	case 1:
		c.Ops = append(c.Ops, CallOp{Op: "exit", A: json.RawMessage("[]")})
	case 2:
		d := []int{1500, 3000, 4000, 4090, 4100, 5000, 10000}[t.Draw(7)]
		c.Ops = append(c.Ops, CallOp{Op: "rec", A: json.RawMessage(fmt.Sprintf("[%d]", d))})
	}
	switch t.Weighted(2, 1, 1) {
	case 1:
		c.Chunk = 1 + t.Draw(5)
	case 2:
		c.Chunk = 1000
	}
	if t.Chance(1, 4) {
		c.Builtins = 1 + t.Draw(7)
	}
	return c
}

func registerC08() {
	mk := func(name string, count map[string]int, long bool) *Workload {
		return &Workload{
			Name:        name,
			Count:       func(tier string) int { return count[tier] },
			Gen:         func(i int, t *Tape, tier string) any { return genCallCase(t, long) },
			Run:         func(c any, keep bool) Outcome { return runCallCase(c.(*CallCase), keep) },
			New:         func() any { return &CallCase{} },
			ShrinkEvals: map[bool]int{true: 160, false: 1500}[long],
			Simplify:    simplifyCall,
		}
	}
	register(&Property{
		ID:    "C08",
		Level: "exploration",
		Rule:  "seeded histories of operation elements (calls with 0-4 arguments against seeded arities, returns from inside for/while/for-in/if/match bodies, callee locals, globals, scalar parameters reassigned, nested calls, recursion, mutual recursion, next inside functions at depth 1 and 2, matches with expression and block bodies, a call in pattern position, exit at depth) driven through a fixed function library; short histories (1-30 operations) and long ones (4300-6100 operations, dominated by one operation kind); every output line predicted by the binding/scope model; END probe `name is unknown` for every parameter, callee local and match-bound name; frame depth back at rule level (hook); a trailing deep recursion (1500-10000) compared with the same recursion as the first operation of a fresh run. Distinct = distinct (arity, loop kind, history-length bucket, set of operation kinds); non-trivial = at least two operations.",
		Assumptions: []string{
			"no fault or interleaving dimension exists for this property; the harness contributes seeded history search, per-step model conformance, minimisation and replay",
			"containers passed as arguments are only read by the callee (aliasing belongs to C09)",
			"the recursion limit is never compared with a constant, only run against run",
			"match arguments avoid values whose == comparison with the literal case is an error or a numeric-string coercion (C05/C19 territory)",
		},
		Components: libComponents,
		Workloads: []*Workload{
			mk("short-histories", map[string]int{"quick": 12000, "thorough": 900000}, false),
			mk("long-histories", map[string]int{"quick": 96, "thorough": 12000}, true),
			{
				Name:        "very-long-histories",
				Count:       func(tier string) int { return map[string]int{"quick": 16, "thorough": 400}[tier] },
				Gen:         func(i int, t *Tape, tier string) any { return genVeryLongCase(t) },
				Run:         func(c any, keep bool) Outcome { return runCallCase(c.(*CallCase), keep) },
				New:         func() any { return &CallCase{} },
				ShrinkEvals: 60,
				Simplify:    simplifyCall,
				NoRecheck:   true,
			},
			{
				Name:        "counted-gaps",
				Count:       func(tier string) int { return map[string]int{"quick": 510, "thorough": 12000}[tier] },
				Gen:         func(i int, t *Tape, tier string) any { return genGapCase(i, t, tier) },
				Run:         func(c any, keep bool) Outcome { return runGapCase(c.(*GapCase), keep) },
				New:         func() any { return &GapCase{} },
				ShrinkEvals: 40,
				NoRecheck:   true,
			},
			{
				Name:        "wide-scopes",
				Count:       func(tier string) int { return map[string]int{"quick": 24, "thorough": 1200}[tier] },
				Gen:         func(i int, t *Tape, tier string) any { return genWideCase(t, tier) },
				Run:         func(c any, keep bool) Outcome { return runWideCase(c.(*WideCase), keep) },
				New:         func() any { return &WideCase{} },
				ShrinkEvals: 200,
				Simplify:    simplifyWide,
				NoRecheck:   true,
			},
		},
	})
}
