package main

// Process world (C14, and C01's process-level clause): the real jqawk binary,
// built from /repo by check.sh, executed in a seeded scratch directory. The
// seed decides argv, the directory contents and the fault state of the
// simulated filesystem; the library (lang.EvalProgram + GetRootJson) on the
// same bytes is the oracle. stdout/stderr go to regular files: no pipes, no
// threads of the harness, no timing.

import (
	"bytes"
	"errors"
	"fmt"
	"io"
	"io/fs"
	"os"
	"os/exec"
	"path/filepath"
	"regexp"
	"strconv"
	"strings"
	"sync"
	"sync/atomic"
	"syscall"
	"time"

	lang "github.com/alligator/jqawk/src"
)

type ProcFile struct {
	Name string `json:"name"`
	Data QBytes `json:"data"`
	Kind string `json:"kind"` // regular | missing | dir | procmem | empty
}

type ProcCase struct {
	Note      string     `json:"note,omitempty"`
	Prog      string     `json:"prog"`
	ViaF      bool       `json:"via_f"`
	FMissing  bool       `json:"f_missing,omitempty"` // -f names a file that does not exist
	Selectors []string   `json:"selectors,omitempty"`
	Inputs    []ProcFile `json:"inputs"`
	Stdin     QBytes     `json:"stdin"`
	OMode     string     `json:"o_mode,omitempty"` // "" | "-" | file | existing | missingdir | isdir | devfull
	DashDash  bool       `json:"dashdash,omitempty"`
	Env       []string   `json:"env,omitempty"`
	Extra     int        `json:"extra_files,omitempty"`
	Relation  string     `json:"relation,omitempty"` // "" | f-vs-inline | stdin-vs-file | r-vs-beginfile
	Strace    *StraceInj `json:"strace,omitempty"`
	// StdinMode: what is behind descriptor 0: "" a regular file at offset 0,
	// "offset" a regular file of which an earlier reader has consumed a leading
	// line (the input is what follows the offset), "pipe" a pipe, "socket" a
	// connected stream socket
	StdinMode string `json:"stdin_mode,omitempty"`
	// StdoutTTY: descriptor 1 is a terminal (a pseudo-terminal whose other end the harness reads)
	StdoutTTY bool `json:"stdout_tty,omitempty"`
	// FFifo: the -f program file is a named pipe
	FFifo bool `json:"f_fifo,omitempty"`

	fifos []fifoFeed
	ofifo string
}

const stdinHeader = "#! a leading line that an earlier reader of the same open file has consumed\n"

var procfsInputs = []string{"/proc/sys/kernel/pid_max", "/proc/sys/kernel/ngroups_max", "/proc/sys/kernel/threads-max"}

// StraceInj: ptrace-level fault injection (strace -e inject=...) restricted to
// one path with -P: fail the When-th read/openat of an input file, or the
// When-th write to the -o file.
type StraceInj struct {
	Syscall string `json:"syscall"` // read | write | openat
	When    int    `json:"when"`
	Errno   string `json:"errno"`
	Input   int    `json:"input"` // index of the input file (read/openat); ignored for write
}

type procResult struct {
	injected  bool // the injected fault actually fired
	delivered int  // bytes the faulted file had delivered before the injected read
	eofSeen   bool // a read had already returned 0 (end of file) before the injected one
	exit      int
	signaled  bool
	stdout    string
	stderr    string
	ofile     string
	ofileOK   bool // -o file exists
	started   bool
}

var procCounter int64

func jqawkBin() string { return os.Getenv("SIM_JQAWK") }

func procScratch() string {
	d := os.Getenv("SIM_SCRATCH")
	if d == "" {
		d = os.TempDir()
	}
	return d
}

// materialise the case's filesystem in dir; returns argv (without the binary)
func (c *ProcCase) setup(dir string, variant string) (args []string, stdinPath string, ofilePath string, err error) {
	c.fifos = nil
	c.ofifo = ""
	prog := c.Prog
	selectors := c.Selectors
	inputs := c.Inputs
	stdin := []byte(c.Stdin)
	viaF := c.ViaF
	switch variant {
	case "f":
		viaF = !viaF
	case "file":
		// stdin content as a named file instead
		inputs = []ProcFile{{Name: "stdin-as-file.json", Data: c.Stdin, Kind: "regular"}}
		stdin = nil
	case "beginfile":
		prog = "BEGINFILE { $ = " + selectors[0] + " }\n" + prog
		selectors = nil
	}
	for _, s := range selectors {
		args = append(args, "-r", s)
	}
	switch c.OMode {
	case "":
	case "-":
		args = append(args, "-o", "-")
	case "file":
		ofilePath = filepath.Join(dir, "out.json")
		args = append(args, "-o", "out.json")
	case "existing":
		ofilePath = filepath.Join(dir, "out.json")
		if err = os.WriteFile(ofilePath, bytes.Repeat([]byte("previous content of the output file\n"), 40), 0o644); err != nil {
			return
		}
		args = append(args, "-o", "out.json")
	case "missingdir":
		args = append(args, "-o", "nosuchdir/out.json")
	case "isdir":
		if err = os.Mkdir(filepath.Join(dir, "outdir"), 0o755); err != nil {
			return
		}
		args = append(args, "-o", "outdir")
	case "devfull":
		args = append(args, "-o", "/dev/full")
	case "inplace":
		// -o names the first input itself
		args = append(args, "-o", c.Inputs[0].Name)
	case "devnull":
		args = append(args, "-o", "/dev/null")
	case "fifo":
		// the JSON output goes into a named pipe that the harness reads
		c.ofifo = filepath.Join(dir, "out.fifo")
		if err = syscall.Mkfifo(c.ofifo, 0o644); err != nil {
			return
		}
		args = append(args, "-o", "out.fifo")
	}
	if viaF {
		name := "prog.jqawk"
		if !c.FMissing && c.FFifo {
			// the program text arrives through a named pipe (as with -f <(gen) or -f /dev/stdin)
			if err = syscall.Mkfifo(filepath.Join(dir, name), 0o644); err != nil {
				return
			}
			c.fifos = append(c.fifos, fifoFeed{path: filepath.Join(dir, name), data: []byte(prog)})
		} else if !c.FMissing {
			if err = os.WriteFile(filepath.Join(dir, name), []byte(prog), 0o644); err != nil {
				return
			}
		}
		args = append(args, "-f", name)
		if c.DashDash {
			args = append(args, "--")
		}
	} else {
		if c.DashDash || strings.HasPrefix(prog, "-") {
			args = append(args, "--")
		}
		args = append(args, prog)
	}
	// names are passed exactly as spelled (./x, sub//x, sub/../x): the directory they mention exists
	os.MkdirAll(filepath.Join(dir, "sub"), 0o755)
	for _, in := range inputs {
		switch in.Kind {
		case "missing":
		case "dir":
			if err = os.MkdirAll(filepath.Join(dir, in.Name), 0o755); err != nil {
				return
			}
		case "procmem", "procfs":
		case "fifo":
			// a named pipe: a size-0, non-seekable named input whose bytes
			// arrive only once the binary has opened it
			p := filepath.Join(dir, in.Name)
			os.MkdirAll(filepath.Dir(p), 0o755)
			if err = syscall.Mkfifo(p, 0o644); err != nil {
				return
			}
			c.fifos = append(c.fifos, fifoFeed{path: p, data: in.Data})
		default:
			// names are passed exactly as spelled (./x, a//x, sub/../x): the
			// directories they mention must exist
			p := filepath.Join(dir, in.Name)
			os.MkdirAll(filepath.Dir(p), 0o755)
			if err = os.WriteFile(p, in.Data, 0o644); err != nil {
				return
			}
		}
		if in.Kind == "procmem" {
			args = append(args, "/proc/self/mem")
		} else {
			args = append(args, in.Name)
		}
	}
	for i := 0; i < c.Extra; i++ {
		os.WriteFile(filepath.Join(dir, fmt.Sprintf("unrelated%d.json", i)), []byte("[99]"), 0o644)
	}
	stdinPath = filepath.Join(dir, ".stdin")
	if c.StdinMode == "offset" {
		stdin = append([]byte(stdinHeader), stdin...)
	}
	err = os.WriteFile(stdinPath, stdin, 0o644)
	return
}

func runBinary(c *ProcCase, variant string) (res procResult, trouble error) {
	n := atomic.AddInt64(&procCounter, 1)
	dir := filepath.Join(procScratch(), fmt.Sprintf("case-%d-%d", os.Getpid(), n))
	if err := os.MkdirAll(dir, 0o755); err != nil {
		return res, err
	}
	defer os.RemoveAll(dir)
	args, stdinPath, ofilePath, err := c.setup(dir, variant)
	if err != nil {
		return res, err
	}
	outPath := filepath.Join(dir, ".stdout")
	errPath := filepath.Join(dir, ".stderr")
	stdin, err := os.Open(stdinPath)
	if err != nil {
		return res, err
	}
	defer stdin.Close()
	so, _ := os.Create(outPath)
	se, _ := os.Create(errPath)
	defer so.Close()
	defer se.Close()
	bin := jqawkBin()
	argv := args
	if c.Strace != nil {
		path := "out.json"
		if c.Strace.Syscall != "write" && c.Strace.Input < len(c.Inputs) {
			path = c.Inputs[c.Strace.Input].Name
		}
		argv = append([]string{"-f", "-qq", "-o", filepath.Join(dir, ".strace"), "-P", path, "-e", "trace=" + c.Strace.Syscall, "-e", fmt.Sprintf("inject=%s:error=%s:when=%d", c.Strace.Syscall, c.Strace.Errno, c.Strace.When), bin}, args...)
		bin = "/usr/bin/strace"
	}
	// the reading end of an output pipe is opened before the binary starts: a
	// pipe nobody holds open loses what was written into it
	var ofifoReader *os.File
	if c.ofifo != "" {
		rf, err := os.OpenFile(c.ofifo, os.O_RDWR, 0)
		if err != nil {
			return res, err
		}
		ofifoReader = rf
	}
	cmd := exec.Command(bin, argv...)
	cmd.Dir = dir
	cmd.Stdin = stdin
	switch c.StdinMode {
	case "offset":
		if _, err := stdin.Seek(int64(len(stdinHeader)), io.SeekStart); err != nil {
			return res, err
		}
	case "pipe":
		if data, err := os.ReadFile(stdinPath); err == nil {
			cmd.Stdin = bytes.NewReader(data)
		}
	case "socket":
		// a stream socket on descriptor 0 (what sshd, inetd or socat hand to a command)
		if data, err := os.ReadFile(stdinPath); err == nil {
			fds, err := syscall.Socketpair(syscall.AF_UNIX, syscall.SOCK_STREAM|syscall.SOCK_CLOEXEC, 0)
			if err != nil {
				return res, err
			}
			ours, theirs := os.NewFile(uintptr(fds[0]), "stdin-socket-w"), os.NewFile(uintptr(fds[1]), "stdin-socket-r")
			cmd.Stdin = theirs
			defer theirs.Close()
			go func() {
				ours.Write(data)
				ours.Close()
			}()
		}
	}
	cmd.Stdout = so
	var ptyMaster, ptySlave *os.File
	var ptyData []byte
	ptyDone := make(chan struct{})
	if c.StdoutTTY && c.Strace == nil {
		if m, s, err := openPty(); err == nil {
			ptyMaster, ptySlave = m, s
			cmd.Stdout = s
			go func() {
				defer close(ptyDone)
				buf := make([]byte, 65536)
				for {
					n, err := m.Read(buf)
					ptyData = append(ptyData, buf[:n]...)
					if err != nil {
						return // EIO once every slave descriptor is closed
					}
				}
			}()
		}
	}
	cmd.Stderr = se
	cmd.Env = append([]string{"PATH=/usr/bin:/bin", "HOME=" + dir}, c.Env...)
	if err := cmd.Start(); err != nil {
		if ofifoReader != nil {
			ofifoReader.Close()
		}
		if ptyMaster != nil {
			ptySlave.Close()
			<-ptyDone
			ptyMaster.Close()
		}
		return res, err
	}
	res.started = true
	timer := time.AfterFunc(60*time.Second, func() { cmd.Process.Kill() })
	done := make(chan struct{})
	var feeders sync.WaitGroup
	var ofifoData []byte
	if c.ofifo != "" {
		// opened for reading and writing: never blocks, never sees end of file;
		// read until the binary has exited and nothing more arrives
		if rf := ofifoReader; rf != nil {
			feeders.Add(1)
			go func() {
				defer feeders.Done()
				defer rf.Close()
				buf := make([]byte, 65536)
				// how much is waiting is asked of the pipe itself (FIONREAD), so no
				// deadline decides whether data is there: a starved harness must not
				// lose the tail of the output
				drain := func() {
					for pipeUnread(rf.Fd()) > 0 {
						rf.SetReadDeadline(time.Now().Add(10 * time.Second))
						n, err := rf.Read(buf)
						ofifoData = append(ofifoData, buf[:n]...)
						if err != nil && n == 0 {
							return
						}
					}
				}
				for {
					select {
					case <-done:
						drain()
						return
					case <-time.After(2 * time.Millisecond):
						drain()
					}
				}
			}()
		}
	}
	for _, f := range c.fifos {
		feeders.Add(1)
		go func(f fifoFeed) {
			defer feeders.Done()
			f.feed(done)
		}(f)
	}
	werr := cmd.Wait()
	close(done)
	feeders.Wait()
	if !timer.Stop() {
		return res, errors.New("binary exceeded the 60 s watchdog")
	}
	if werr != nil {
		var ee *exec.ExitError
		if errors.As(werr, &ee) {
			res.exit = ee.ExitCode()
			if ws, ok := ee.Sys().(syscall.WaitStatus); ok && ws.Signaled() {
				res.signaled = true
			}
		} else {
			return res, werr
		}
	}
	ob, _ := os.ReadFile(outPath)
	eb, _ := os.ReadFile(errPath)
	if ptyMaster != nil {
		ptySlave.Close()
		<-ptyDone
		ptyMaster.Close()
		ob = ptyData
	}
	res.stdout, res.stderr = string(ob), string(eb)
	if c.Strace != nil {
		// strace's own chatter is not the program's diagnostic
		var keep []string
		for _, l := range strings.Split(res.stderr, "\n") {
			if !strings.HasPrefix(l, "strace: ") {
				keep = append(keep, l)
			}
		}
		res.stderr = strings.Join(keep, "\n")
		// the observed history: what the file delivered before the injected call
		// (strace counts per thread, so the intended position is not trusted)
		if lb, err := os.ReadFile(filepath.Join(dir, ".strace")); err == nil {
			for _, l := range strings.Split(string(lb), "\n") {
				if strings.Contains(l, "(INJECTED)") {
					res.injected = true
					break
				}
				// a call may be logged in two pieces when threads interleave:
				// `read(5, <unfinished ...>` ... `<... read resumed>"...", 512) = 512`
				if strings.Contains(l, "<unfinished") {
					continue
				}
				if c.Strace.Syscall == "read" && (strings.Contains(l, " read(") || strings.Contains(l, "read resumed>")) {
					if i := strings.LastIndex(l, "= "); i >= 0 {
						if n, err := strconv.Atoi(strings.TrimSpace(l[i+2:])); err == nil {
							if n > 0 {
								res.delivered += n
							} else if n == 0 {
								res.eofSeen = true
							}
						}
					}
				}
			}
		}
	}
	if ofilePath != "" {
		if fb, err := os.ReadFile(ofilePath); err == nil {
			res.ofile, res.ofileOK = string(fb), true
		}
	}
	if c.ofifo != "" {
		res.ofile, res.ofileOK = string(ofifoData), true
	}
	return res, nil
}

// fifoFeed is the writing end of a named pipe given to the binary as an input:
// it opens the pipe once the binary is reading it, delivers the bytes in two
// writes and closes. If the binary never opens the pipe the feeder gives up
// when the binary has exited.
type fifoFeed struct {
	path string
	data []byte
}

func (f fifoFeed) feed(done chan struct{}) {
	for {
		fd, err := syscall.Open(f.path, syscall.O_WRONLY|syscall.O_NONBLOCK, 0)
		if err == nil {
			syscall.SetNonblock(fd, false)
			w := os.NewFile(uintptr(fd), f.path)
			h := len(f.data) / 2
			w.Write(f.data[:h])
			w.Write(f.data[h:])
			w.Close()
			return
		}
		select {
		case <-done:
			return
		case <-time.After(500 * time.Microsecond):
		}
	}
}

type failingReader struct{ err error }

func (f failingReader) Read(p []byte) (int, error) { return 0, f.err }

type libResult struct {
	kind   string
	msg    string
	stdout string
	json   string
	jsonOK bool
}

// libOracle runs the library on the same program, selectors and input bytes.
func libOracle(c *ProcCase, variant string) libResult {
	lang.VerifResetProcessState()
	prog := c.Prog
	selectors := c.Selectors
	if variant == "beginfile" {
		prog = "BEGINFILE { $ = " + selectors[0] + " }\n" + prog
		selectors = nil
	}
	var files []lang.InputFile
	if len(c.Inputs) == 0 {
		files = []lang.InputFile{{Name: "<stdin>", Reader: bytes.NewReader(c.Stdin)}}
	}
	for _, in := range c.Inputs {
		name := in.Name
		switch in.Kind {
		case "dir":
			files = append(files, lang.InputFile{Name: name, Reader: failingReader{&fs.PathError{Op: "read", Path: name, Err: syscall.EISDIR}}})
		case "procmem":
			files = append(files, lang.InputFile{Name: "/proc/self/mem", Reader: failingReader{&fs.PathError{Op: "read", Path: name, Err: syscall.EIO}}})
		case "missing":
			files = append(files, lang.InputFile{Name: name, Reader: failingReader{&fs.PathError{Op: "open", Path: name, Err: syscall.ENOENT}}})
		case "procfs":
			// a kernel-provided file outside the scratch directory: stat size 0, content read now
			data, _ := os.ReadFile(name)
			files = append(files, lang.InputFile{Name: name, Reader: bytes.NewReader(data)})
		default:
			files = append(files, lang.InputFile{Name: name, Reader: bytes.NewReader(in.Data)})
		}
	}
	var out bytes.Buffer
	var r libResult
	func() {
		defer func() {
			if p := recover(); p != nil {
				r.kind, r.msg = "panic", fmt.Sprint(p)
			}
		}()
		ev, err := lang.EvalProgram(prog, files, selectors, &out, false)
		r.kind, r.msg = classifyErr(err)
		if err == nil && ev != nil {
			j, jerr := ev.GetRootJson()
			if jerr == nil {
				r.json, r.jsonOK = j, true
			}
		}
	}()
	r.stdout = out.String()
	return r
}

func crashSignature(stderr string) bool {
	return strings.Contains(stderr, "panic:") || strings.Contains(stderr, "fatal error:") || strings.Contains(stderr, "goroutine ") || strings.Contains(stderr, "runtime.")
}

func runProcCase(c *ProcCase, keep bool, c01only bool) Outcome {
	log := newEventLog(keep)
	o := Outcome{Probes: map[string]int{}, Faults: map[string]int{}}
	finish := func() Outcome {
		o.LogHash = log.Hash()
		o.Log = log.lines
		o.Steps = log.seq
		return o
	}
	if jqawkBin() == "" {
		o.Class, o.Msg = "harness", "SIM_JQAWK not set"
		return finish()
	}
	res, trouble := runBinary(c, "")
	if trouble != nil {
		o.Class, o.Msg = "harness", trouble.Error()
		return finish()
	}
	log.add('P', 'x', "EXEC exit=%d signaled=%v stdout=%q stderr=%q ofile=%v:%q", res.exit, res.signaled, truncate(res.stdout, 200), truncate(res.stderr, 200), res.ofileOK, truncate(res.ofile, 200))
	o.Nontrivial = true
	for _, in := range c.Inputs {
		if in.Kind != "regular" {
			o.Faults["input_"+in.Kind]++
		}
	}
	if c.OMode != "" && c.OMode != "-" && c.OMode != "file" && c.OMode != "existing" {
		o.Faults["o_"+c.OMode]++
	}
	if c.FMissing {
		o.Faults["f_missing"]++
	}
	o.Shape = fmt.Sprintf("f=%v r=%d in=%d o=%s rel=%s exit=%d", c.ViaF, len(c.Selectors), len(c.Inputs), c.OMode, c.Relation, res.exit)

	// (c) C01's process-level clause
	if res.signaled || crashSignature(res.stderr) {
		o.Class, o.Msg = "process-crash", fmt.Sprintf("the binary died with a Go crash (exit %d, signaled=%v): %s", res.exit, res.signaled, truncate(res.stderr, 400))
		return finish()
	}
	if res.exit != 0 && strings.TrimSpace(res.stderr) == "" {
		o.Class, o.Msg = "silent-failure", fmt.Sprintf("exit status %d without a diagnostic on stderr", res.exit)
		return finish()
	}
	if c01only {
		return finish()
	}

	lib := libOracle(c, "")
	log.add('L', 0, "LIB kind=%s stdout=%q json=%v", lib.kind, truncate(lib.stdout, 200), lib.jsonOK)
	if lib.kind == "panic" {
		// a library crash is C01's finding; C14 has no oracle then
		o.Skipped = "library oracle panicked (C01 territory)"
		return finish()
	}
	// An unreadable input must fail the run when the run gets to read it: the
	// oracle reads through a failing reader, so a program that exits before
	// touching the file legitimately succeeds. For a *missing* file the
	// statement does not say whether it is noticed before the program starts,
	// so the status is only asserted when the library run itself fails.
	unreadable := false
	missingIn := false
	for _, in := range c.Inputs {
		if in.Kind == "missing" {
			missingIn = true
		}
	}
	multiO := c.OMode != "" && len(c.Inputs) > 1
	oBroken := c.OMode == "missingdir" || c.OMode == "isdir" || c.OMode == "devfull"
	wantOK := lib.kind == "success" && !c.FMissing && !multiO
	if missingIn && lib.kind == "success" {
		o.Skipped = "missing input never read by the program: status not fixed by the statement"
		return finish()
	}
	if c.OMode != "" && wantOK {
		if !lib.jsonOK || oBroken {
			wantOK = false
		}
	}
	// (b) exit status
	if wantOK && res.exit != 0 {
		o.Class, o.Msg = "wrong-exit-status", fmt.Sprintf("library succeeded but the binary exited %d: %s", res.exit, truncate(res.stderr, 300))
		return finish()
	}
	if !wantOK && res.exit == 0 {
		o.Class, o.Msg = "exit-0-on-error", fmt.Sprintf("expected a non-zero exit status (library outcome %s %q, unreadable=%v, -o trouble=%v, -f missing=%v) but the binary exited 0", lib.kind, lib.msg, unreadable, oBroken || multiO, c.FMissing)
		return finish()
	}
	// (a) stdout / JSON output
	missing := false
	for _, in := range c.Inputs {
		if in.Kind == "missing" {
			missing = true
		}
	}
	if !missing && !c.FMissing && !multiO {
		want := lib.stdout
		if wantOK && c.OMode == "-" {
			want += lib.json
		}
		if lib.kind == "success" && !wantOK && c.OMode == "-" && !lib.jsonOK {
			// JSON conversion failed: program output only
		}
		if res.stdout != want {
			o.Class, o.Msg = "stdout-differs-from-library", fmt.Sprintf("--- library ---\n%s\n--- binary ---\n%s", truncate(want, 600), truncate(res.stdout, 600))
			return finish()
		}
		if wantOK && (c.OMode == "file" || c.OMode == "existing" || c.OMode == "fifo") {
			if !res.ofileOK || res.ofile != lib.json {
				o.Class, o.Msg = "o-file-differs", fmt.Sprintf("-o FILE holds %q, the JSON output is %q", truncate(res.ofile, 300), truncate(lib.json, 300))
				return finish()
			}
		}
	}
	// (d) relations
	if c.Relation != "" {
		var variant string
		switch c.Relation {
		case "f-vs-inline":
			variant = "f"
		case "stdin-vs-file":
			variant = "file"
		case "r-vs-beginfile":
			variant = "beginfile"
		}
		res2, trouble := runBinary(c, variant)
		if trouble != nil {
			o.Class, o.Msg = "harness", trouble.Error()
			return finish()
		}
		log.add('P', 'y', "EXEC2 %s exit=%d stdout=%q ofile=%v:%q", variant, res2.exit, truncate(res2.stdout, 200), res2.ofileOK, truncate(res2.ofile, 200))
		o.Probes["relation_"+c.Relation]++
		same := (res.exit == 0) == (res2.exit == 0) && res.stdout == res2.stdout && res.ofileOK == res2.ofileOK && res.ofile == res2.ofile
		if c.Relation == "r-vs-beginfile" && res.exit != 0 {
			// both fail: which output preceded the failure is not fixed by the README's equivalence
			same = res2.exit != 0
		}
		if !same {
			o.Class = "relation-" + c.Relation
			o.Msg = fmt.Sprintf("the two invocations differ: exit %d vs %d\n--- A stdout ---\n%s\n--- B stdout ---\n%s\n--- A -o ---\n%s\n--- B -o ---\n%s", res.exit, res2.exit, truncate(res.stdout, 400), truncate(res2.stdout, 400), truncate(res.ofile, 300), truncate(res2.ofile, 300))
			return finish()
		}
	}
	return finish()
}

// ---------------------------------------------------------------- generators

var procEnvs = [][]string{nil, {"TZ=Asia/Tokyo"}, {"LANG=tr_TR.UTF-8", "LC_ALL=tr_TR.UTF-8"}, {"GOMAXPROCS=1"}, {"GOMAXPROCS=7", "TZ=UTC"}, {"GOGC=1"}}

// accumulator programs: no $file, running state across values, optional
// document mutation (so that -o has something to say)
func genAccProgram(t *Tape, mutate bool) string {
	var sb strings.Builder
	if t.Chance(1, 2) {
		sb.WriteString("BEGIN { n = 0\n print \"begin\" }\n")
	}
	if t.Chance(1, 3) {
		sb.WriteString("BEGINFILE { nf++ }\n")
	}
	sb.WriteString("{ n++\n")
	switch t.Weighted(3, 2, 2) {
	case 0:
		sb.WriteString(" if ($ is number) { s += $ }\n")
	case 1:
		sb.WriteString(" if ($ is object) { s += $.id }\n")
	default:
		sb.WriteString(" if ($ is string) { w = w + $ }\n")
	}
	if t.Chance(1, 4) {
		sb.WriteString(" printf(\"v%v:\", n)\n")
	} else {
		sb.WriteString(" print \"v\", n, $ is array, $ is object, $ is number\n")
	}
	if mutate {
		switch t.Weighted(3, 2, 2, 1) {
		case 0:
			sb.WriteString(" if ($ is object) { $.seen = n }\n")
		case 1:
			sb.WriteString(" if ($ is object) { $.id += 100 }\n")
		case 2:
			sb.WriteString(" if ($ is array) { $.push(n) }\n")
		default:
			sb.WriteString(" if ($ is object) { $.tags[1] = \"x\" }\n")
		}
	}
	if t.Chance(1, 6) {
		sb.WriteString(fmt.Sprintf(" if (n == %d) { exit }\n", 1+t.Draw(5)))
	}
	if t.Chance(1, 8) {
		sb.WriteString(fmt.Sprintf(" if (n == %d) { print 1 / (n - n) }\n", 1+t.Draw(5)))
	}
	sb.WriteString("}\n")
	if t.Chance(1, 2) {
		sb.WriteString("ENDFILE { print \"ef\", n }\n")
	}
	switch t.Weighted(4, 2, 1) {
	case 0:
		sb.WriteString("END { print \"end\", n, s, w }\n")
	case 1:
		// output that does not end in a newline: whatever follows (the -o - JSON) comes after it
		sb.WriteString("END { printf(\"end %v %v;\", n, s) }\n")
	}
	return sb.String()
}

var procSelectors = []string{"$", "$.items", "$.a", "$.b", "$[0]", "$[-1]", "$.items[0]", "$.zz", "$.a.length()", "$.id", "[$]", "$.items.sort()", "\"lit\"", "$.b[1]",
	"$[0][0]", "$[-1][1]", "$.items[0][0]", "$.a[1][-1]", "\"lit\"[1]", "$[0].id", "$[1][\"t\"]", "$[\"id\"]", "$.b[0][0][0]", "$.items[0].length()", "$[0][5]", "$.id[0]", "$.t.x", "$[\"a\"][0]",
	"[$.a, $.b]", "$.pluck(\"id\", \"t\")", "{x: $.id, y: [1, 2]}", "match ($) { [a, b] => b, other => other }", "$ is array", "$.id + 1", "-1", "$.items[-1]", "'a b'", "$.t && $.id", "[1,2,3]"}

func genProcCase(t *Tape, c01only bool) *ProcCase {
	c := &ProcCase{}
	g := &streamGen{t: t}
	g.profile = t.Weighted(2, 2, 3, 3)
	g.rich = t.Chance(1, 2)
	// program
	usesFile := false
	switch t.Weighted(4, 4, 2, 2) {
	case 0:
		sc := genStreamCase(t, streamGenOpts{mode: "c14", maxFiles: 0, maxVals: 0, selectors: false, sigProb: 15})
		c.Prog = sc.ProgText
		usesFile = true
	case 1:
		c.Prog = genAccProgram(t, true)
	case 2:
		// loop- and recursion-free, also after garbling: the binary has no step budget
		pg := &progGen{t: t, noLoops: true}
		c.Prog = garbleWith(t, pg.program(), garbleTokensNoLoop)
		if strings.Contains(c.Prog, "while") || strings.Contains(c.Prog, "function") || (strings.Contains(c.Prog, "for") && strings.Contains(c.Prog, ";")) {
			c.Prog = "{ print }"
		}
		c.Prog = strings.ReplaceAll(c.Prog, "\x00", "?")
		usesFile = strings.Contains(c.Prog, "$file")
	default:
		c.Prog = []string{"", "{ print }", "-1 { print }", "# only a comment", "{ print $file }", "BEGIN { exit }", "{ print", "END { print 1 / 0 }",
			"BEGIN { print \"only begin\" }", "function f() { return 1 }\nBEGIN { print f() }", "BEGIN { x = 1 }\nBEGIN { print x }", "END { print \"only end\" }", "BEGINFILE { print \"bf\" }", "ENDFILE { print \"ef\" }"}[t.Draw(14)]
		usesFile = strings.Contains(c.Prog, "$file")
	}
	// the program text as a byte string: endings and raw control characters must
	// survive every way of handing it over
	switch t.Weighted(10, 2, 2, 2, 1, 1) {
	case 1:
		c.Prog = strings.TrimRight(c.Prog, "\n")
	case 2:
		c.Prog = strings.ReplaceAll(c.Prog, "\n", "\r\n")
	case 3:
		c.Prog = "BEGIN { print \"raw cr\r\nlf in a string\", \"tab\there\" }\n" + c.Prog
	case 4:
		c.Prog = c.Prog + "# trailing comment without newline"
	case 5:
		c.Prog = c.Prog + "\n\n\n   \t"
	}
	c.ViaF = t.Chance(1, 3)
	c.DashDash = t.Chance(1, 8)
	// inputs
	switch t.Weighted(3, 5, 3) {
	case 0: // stdin
		c.Stdin = QBytes(g.fileText(t.Draw(4)))
	case 1: // one file
		c.Inputs = []ProcFile{{Name: []string{"a.json", "b.json", "dir/c.json", "./d.json", "sub//e.json", "sub/../f.json", "./sub/./g.json", "h i.json"}[t.Draw(8)], Data: QBytes(g.fileText(t.Draw(4))), Kind: "regular"}}
	default:
		n := 2 + t.Draw(2)
		for i := 0; i < n; i++ {
			name := fmt.Sprintf("in%d.json", i)
			if t.Chance(1, 4) {
				name = []string{"./", "sub/../", "sub//", "./sub/"}[t.Draw(4)] + name
			}
			c.Inputs = append(c.Inputs, ProcFile{Name: name, Data: QBytes(g.fileText(t.Draw(3))), Kind: "regular"})
		}
	}
	// selectors
	if t.Chance(1, 3) {
		ns := 1 + t.Draw(3)
		for i := 0; i < ns; i++ {
			c.Selectors = append(c.Selectors, procSelectors[t.Draw(len(procSelectors))])
		}
	}
	c.StdoutTTY = t.Chance(1, 8)
	c.FFifo = t.Chance(1, 5)
	// a named input may be a pipe rather than a regular file, or a kernel-provided file
	if len(c.Inputs) > 0 && t.Chance(1, 6) {
		c.Inputs[t.Draw(len(c.Inputs))].Kind = "fifo"
	}
	if len(c.Inputs) > 0 && t.Chance(1, 12) {
		i := t.Draw(len(c.Inputs))
		c.Inputs[i] = ProcFile{Name: procfsInputs[t.Draw(len(procfsInputs))], Kind: "procfs"}
	}
	if len(c.Inputs) == 0 {
		c.StdinMode = []string{"", "", "offset", "pipe", "socket"}[t.Draw(5)]
	}
	// -o
	c.OMode = []string{"", "", "-", "file", "existing", "", "-", "file", "devnull", "fifo"}[t.Draw(10)]
	c.Env = procEnvs[t.Draw(len(procEnvs))]
	c.Extra = t.Draw(3)
	// fault states of the simulated filesystem
	if t.Chance(1, 5) {
		fk := t.Weighted(3, 3, 2, 2, 2, 2, 2, 2, 3, 1)
		forcePrefix := fk == 8
		switch fk {
		case 9:
			// very many inputs that cannot be opened (counts around powers of two)
			n := []int{2, 17, 100, 255, 256, 257, 512, 1024}[t.Draw(8)]
			keep := c.Inputs
			c.Inputs = nil
			if len(keep) > 0 && t.Chance(1, 2) {
				c.Inputs = append(c.Inputs, keep[0])
			}
			for k := 0; k < n; k++ {
				c.Inputs = append(c.Inputs, ProcFile{Name: fmt.Sprintf("gone%d.json", k), Kind: "missing"})
			}
			c.Stdin = nil
		case 0:
			if len(c.Inputs) > 0 {
				if i := t.Draw(len(c.Inputs)); c.Inputs[i].Kind != "procfs" {
					c.Inputs[i].Kind = "missing"
				}
			}
		case 1:
			if len(c.Inputs) > 0 {
				if i := t.Draw(len(c.Inputs)); c.Inputs[i].Kind != "procfs" {
					c.Inputs[i].Kind = "dir"
				}
			}
		case 2:
			if len(c.Inputs) > 0 {
				if i := t.Draw(len(c.Inputs)); c.Inputs[i].Kind != "procfs" {
					c.Inputs[i].Kind = "procmem"
				}
			}
		case 3:
			c.ViaF, c.FMissing = true, true
		case 4:
			c.OMode = "missingdir"
		case 5:
			c.OMode = "isdir"
		case 6:
			c.OMode = "devfull"
		default:
			// stream-level defects in a regular file or on stdin
			prefix := ""
			if forcePrefix {
				// bytes in front of the first value that no JSON text starts with
				prefix = []string{"\xef\xbb\xbf", "\xef\xbb\xbf", "\xef\xbb\xbf", "\xff\xfe", "\xfe\xff", "\x00", "#!jq\n", "\x1f\x8b", ")]}'\n", "\xc2\xa0", "\x0b", "\xef\xbb"}[t.Draw(12)]
			}
			if len(c.Inputs) > 0 {
				i := t.Draw(len(c.Inputs))
				d := c.Inputs[i].Data
				if prefix != "" {
					c.Inputs[i].Data = append(QBytes(prefix), d...)
				} else if len(d) > 0 {
					c.Inputs[i].Data = d[:t.Draw(len(d))]
				}
			} else if len(c.Stdin) > 0 {
				if prefix != "" {
					c.Stdin = append(QBytes(prefix), c.Stdin...)
				} else if t.Chance(1, 2) {
					c.Stdin = c.Stdin[:t.Draw(len(c.Stdin))]
				} else {
					c.Stdin = append(c.Stdin, []byte(" ] x")...)
				}
			}
		}
	}
	// the same path may be named more than once: each occurrence is read from its beginning
	if n := len(c.Inputs); n > 0 && n < 8 && t.Chance(1, 7) {
		if i := t.Draw(n); c.Inputs[i].Kind == "regular" {
			c.Inputs = append(c.Inputs, c.Inputs[i])
		}
	}
	if c01only {
		return c
	}
	// relations
	allRegular := true
	for _, in := range c.Inputs {
		if in.Kind != "regular" {
			allRegular = false
		}
	}
	switch t.Weighted(3, 2, 2, 2) {
	case 1:
		if !c.FMissing {
			c.Relation = "f-vs-inline"
		}
	case 2:
		if len(c.Inputs) == 0 && !usesFile {
			c.Relation = "stdin-vs-file"
		}
	case 3:
		// -r E == BEGINFILE { $ = E }: E self-contained, program does not look at $ in BEGINFILE/ENDFILE
		if allRegular && !strings.Contains(c.Prog, "BEGINFILE") && !strings.Contains(c.Prog, "ENDFILE") && !c.FMissing {
			c.Selectors = []string{procSelectors[t.Draw(len(procSelectors))]}
			c.Relation = "r-vs-beginfile"
		}
	}
	return c
}

// genProcStreamCase: the value-stream property at the process boundary. Named
// files and stdin holding streams of every shape (in particular streams whose
// last value is a bare scalar with nothing after it), with the defects of the
// stream world applied to the file contents; the library on the same bytes is
// the oracle for stdout and outcome.
func genProcStreamCase(t *Tape) *ProcCase {
	c := &ProcCase{}
	g := &streamGen{t: t}
	g.profile = t.Weighted(3, 3, 2, 2)
	g.rich = t.Chance(1, 4)
	sc := genStreamCase(t, streamGenOpts{mode: "c03", maxFiles: 0, maxVals: 0, sigProb: 10})
	c.Prog = sc.ProgText
	mk := func() QBytes {
		d := g.fileText(1 + t.Draw(4))
		switch t.Weighted(3, 3, 1) {
		case 0:
			// nothing after the last value
			d = bytes.TrimRight(d, " \t\r\n")
		case 1:
			d = append(bytes.TrimRight(d, " \t\r\n"), []byte(" "+g.scalarText())...)
		}
		return QBytes(d)
	}
	if t.Chance(1, 4) {
		c.Stdin = mk()
	} else {
		n := 1 + t.Draw(3)
		for i := 0; i < n; i++ {
			c.Inputs = append(c.Inputs, ProcFile{Name: fmt.Sprintf("s%d.json", i), Data: mk(), Kind: "regular"})
		}
	}
	// a defect in one of the streams
	if t.Chance(1, 2) {
		target := &c.Stdin
		if len(c.Inputs) > 0 {
			target = &c.Inputs[t.Draw(len(c.Inputs))].Data
		}
		d := []byte(*target)
		if len(d) > 0 {
			off := t.Draw(len(d) + 1)
			switch t.Weighted(3, 2, 2, 1) {
			case 3:
				d = append([]byte([]string{"\xef\xbb\xbf", "\xff\xfe", "\x00", ")]}'\n", "\x1f\x8b"}[t.Draw(5)]), d...)
			case 0:
				d = d[:off]
			case 1:
				txt := strayTexts[t.Draw(len(strayTexts))]
				if !strings.Contains(txt, "\x00") {
					d = append(append(append([]byte{}, d[:off]...), txt...), d[off:]...)
				}
			default:
				if off < len(d) {
					d = append([]byte{}, d...)
					d[off] = corruptBytes[t.Draw(len(corruptBytes))]
				}
			}
			*target = QBytes(d)
		}
	}
	if t.Chance(1, 6) && len(c.Inputs) <= 1 {
		c.OMode = []string{"-", "file"}[t.Draw(2)]
	}
	c.ViaF = t.Chance(1, 5)
	// named inputs that are pipes: size 0, not seekable, bytes arrive late
	for i := range c.Inputs {
		if t.Chance(1, 5) {
			c.Inputs[i].Kind = "fifo"
		}
	}
	if len(c.Inputs) == 0 {
		c.StdinMode = []string{"", "offset", "pipe", "socket"}[t.Draw(4)]
	}
	return c
}

func procStreamWorkload(name string, count map[string]int) *Workload {
	return &Workload{
		Name:     name,
		Count:    func(tier string) int { return count[tier] },
		Gen:      func(i int, t *Tape, tier string) any { return genProcStreamCase(t) },
		Run:      func(c any, keep bool) Outcome { return runProcCase(c.(*ProcCase), keep, false) },
		New:      func() any { return &ProcCase{} },
		Simplify: simplifyProc,
	}
}

func procWorkload(name string, count map[string]int, c01only bool) *Workload {
	return &Workload{
		Name:     name,
		Count:    func(tier string) int { return count[tier] },
		Gen:      func(i int, t *Tape, tier string) any { return genProcCase(t, c01only) },
		Run:      func(c any, keep bool) Outcome { return runProcCase(c.(*ProcCase), keep, c01only) },
		New:      func() any { return &ProcCase{} },
		Simplify: simplifyProc,
	}
}

var procComponents = map[string][]string{
	"real":      {"the jqawk binary built from /repo (cli.Run, flag parsing, os file handling, the whole interpreter)", "the kernel's file implementation (regular files, directories, named pipes, pipes, /proc/self/mem, /proc/sys files, /dev/full)", "lang.EvalProgram + GetRootJson as the oracle"},
	"simulated": {"argv, environment, working directory contents and filesystem fault states (seeded)", "stdout/stderr as regular files; stdin as a regular file (also at a non-zero offset) or a pipe"},
	"stubbed":   {},
}

func registerProc() {
	register(&Property{
		ID:    "C14",
		Level: "exploration",
		Rule:  "seeded command lines (-f / inline, stdin / one file / several files, 0-3 -r selectors, -o absent / - / FILE / existing FILE, --, environment variations) over seeded programs (trace, accumulator with document mutation, garbled, degenerate) and inputs, with filesystem fault states (missing / directory / /proc/self/mem inputs, missing -f file, -o into a missing directory / onto a directory / onto /dev/full, truncated files); the library on the same bytes is the oracle for stdout, JSON output and outcome; relations -f==inline, stdin==file, -r E==BEGINFILE{$=E} checked by a second invocation; -r A -r B on one document against -r A followed by -r B for programs that change what they are given (selector-sum); named pipes, kernel-provided files, and standard input behind a file / a file at an offset / a pipe. Distinct = distinct (configuration shape, exit status); non-trivial = every executed case.",
		Assumptions: []string{
			"the library (lang.EvalProgram + GetRootJson) is the oracle, as the property states",
			"stdout is not asserted when an input file is missing, -f is missing, or -o is combined with several inputs (the statement only fixes status and diagnostic there)",
			"-r E == BEGINFILE{$=E} only for E from a self-contained selector pool and programs without BEGINFILE/ENDFILE rules; when both invocations fail only the failure is compared",
			"-dbg-*, -profile, -version and a terminal on stdin are out of scope",
			"the sandbox runs as root: unreadable files are simulated by a directory and /proc/self/mem instead of permission bits",
		},
		Components: procComponents,
		Workloads: []*Workload{
			procWorkload("cli", map[string]int{"quick": 9000, "thorough": 600000}, false),
			{
				Name:        "cli-syscall-faults",
				Count:       func(tier string) int { return map[string]int{"quick": 480, "thorough": 30000}[tier] },
				Gen:         func(i int, t *Tape, tier string) any { return genSyscallFaultCase(t) },
				Run:         func(c any, keep bool) Outcome { return runSyscallFaultCase(c.(*ProcCase), keep) },
				New:         func() any { return &ProcCase{} },
				NoRecheck:   true,
				ShrinkEvals: 150,
			},
			selSumWorkload(map[string]int{"quick": 900, "thorough": 60000}),
		},
	})
}

// prefixThenError delivers data and then fails like a read(2) error.
type prefixThenError struct {
	data     []byte
	pos      int
	err      error
	eofFirst bool // report end of file once before failing (the observed history did)
}

func (r *prefixThenError) Read(p []byte) (int, error) {
	if r.pos >= len(r.data) {
		if r.eofFirst {
			r.eofFirst = false
			return 0, io.EOF
		}
		return 0, r.err
	}
	n := copy(p, r.data[r.pos:])
	r.pos += n
	return n, nil
}

// runSyscallFaultCase: one invocation under strace with an injected syscall
// failure on one path. The oracle is computed from the *observed* history.
func runSyscallFaultCase(c *ProcCase, keep bool) Outcome {
	log := newEventLog(keep)
	o := Outcome{Probes: map[string]int{}, Faults: map[string]int{}, Nontrivial: true}
	finish := func() Outcome {
		// thread scheduling decides which read is the n-th of its thread: the event
		// hash covers the configuration only
		o.LogHash, o.Log, o.Steps = fmt.Sprintf("%x", hashStr(c.Strace.Syscall+c.Prog)), log.lines, log.seq
		return o
	}
	if _, err := os.Stat("/usr/bin/strace"); err != nil {
		o.Skipped = "ptrace: strace unavailable"
		return finish()
	}
	res, trouble := runBinary(c, "")
	if trouble != nil {
		o.Class, o.Msg = "harness", trouble.Error()
		return finish()
	}
	log.add('P', 'x', "EXEC(strace %s when=%d) injected=%v delivered=%d exit=%d stdout=%q stderr=%q", c.Strace.Syscall, c.Strace.When, res.injected, res.delivered, res.exit, truncate(res.stdout, 200), truncate(res.stderr, 200))
	o.Shape = fmt.Sprintf("%s|inj=%v|exit=%d|o=%s|in=%d", c.Strace.Syscall, res.injected, res.exit, c.OMode, len(c.Inputs))
	if strings.Contains(res.stderr, "PTRACE") || strings.Contains(res.stderr, "ptrace") {
		o.Skipped = "ptrace: not permitted in this sandbox"
		return finish()
	}
	if res.signaled || crashSignature(res.stderr) {
		o.Class, o.Msg = "process-crash", fmt.Sprintf("the binary died with a Go crash under an injected %s failure: %s", c.Strace.Syscall, truncate(res.stderr, 400))
		return finish()
	}
	if res.exit != 0 && strings.TrimSpace(res.stderr) == "" {
		o.Class, o.Msg = "silent-failure", fmt.Sprintf("exit status %d without a diagnostic on stderr", res.exit)
		return finish()
	}
	if !res.injected {
		o.Probes["injection_not_reached"]++
		return finish()
	}
	o.Faults["ptrace_"+c.Strace.Syscall+"_"+c.Strace.Errno]++
	// library oracle on the observed history
	lang.VerifResetProcessState()
	var files []lang.InputFile
	for i, in := range c.Inputs {
		switch {
		case c.Strace.Syscall == "read" && i == c.Strace.Input:
			d := res.delivered
			if d > len(in.Data) {
				d = len(in.Data)
			}
			files = append(files, lang.InputFile{Name: in.Name, Reader: &prefixThenError{data: in.Data[:d], eofFirst: res.eofSeen, err: &fs.PathError{Op: "read", Path: in.Name, Err: syscall.EIO}}})
		case c.Strace.Syscall == "openat" && i == c.Strace.Input:
			files = append(files, lang.InputFile{Name: in.Name, Reader: failingReader{&fs.PathError{Op: "open", Path: in.Name, Err: syscall.EACCES}}})
		default:
			files = append(files, lang.InputFile{Name: in.Name, Reader: bytes.NewReader(in.Data)})
		}
	}
	var out bytes.Buffer
	libKind, libMsg := "", ""
	jsonOK := false
	func() {
		defer func() {
			if p := recover(); p != nil {
				libKind, libMsg = "panic", fmt.Sprint(p)
			}
		}()
		ev, err := lang.EvalProgram(c.Prog, files, c.Selectors, &out, false)
		libKind, libMsg = classifyErr(err)
		if err == nil && ev != nil {
			if _, jerr := ev.GetRootJson(); jerr == nil {
				jsonOK = true
			}
		}
	}()
	log.add('L', 0, "LIB kind=%s msg=%q", libKind, libMsg)
	if libKind == "panic" {
		o.Skipped = "library oracle panicked (C01 territory)"
		return finish()
	}
	switch c.Strace.Syscall {
	case "read":
		// the run got to read the failing file (the injection fired): it must fail
		// unless the program had already decided to exit, and stdout must be what
		// the library prints for the same delivered prefix
		if libKind == "success" {
			o.Skipped = "program ended before the failing read mattered"
			return finish()
		}
		if res.exit == 0 {
			o.Class, o.Msg = "exit-0-on-error", fmt.Sprintf("read(2) on %s failed with %s after %d bytes, yet the binary exited 0 (library: %s %q)", c.Inputs[c.Strace.Input].Name, c.Strace.Errno, res.delivered, libKind, libMsg)
			return finish()
		}
		if res.stdout != out.String() {
			o.Class, o.Msg = "stdout-differs-from-library", fmt.Sprintf("after a read error at byte %d\n--- library ---\n%s\n--- binary ---\n%s", res.delivered, truncate(out.String(), 500), truncate(res.stdout, 500))
		}
	case "openat":
		if res.exit == 0 {
			o.Class, o.Msg = "exit-0-on-error", fmt.Sprintf("opening %s failed with %s, yet the binary exited 0", c.Inputs[c.Strace.Input].Name, c.Strace.Errno)
		}
	case "write":
		if libKind == "success" && jsonOK && res.exit == 0 {
			o.Class, o.Msg = "exit-0-on-error", fmt.Sprintf("write(2) to the -o file failed with %s, yet the binary exited 0", c.Strace.Errno)
		}
	}
	return finish()
}

func genSyscallFaultCase(t *Tape) *ProcCase {
	c := &ProcCase{}
	g := &streamGen{t: t}
	g.profile = t.Weighted(2, 2, 3, 3)
	g.rich = t.Chance(1, 2)
	if t.Chance(1, 2) {
		sc := genStreamCase(t, streamGenOpts{mode: "c14", maxFiles: 0, maxVals: 0, sigProb: 10})
		c.Prog = sc.ProgText
	} else {
		c.Prog = genAccProgram(t, true)
	}
	n := 1 + t.Draw(3)
	for i := 0; i < n; i++ {
		nv := 1 + t.Draw(5)
		data := g.fileText(nv)
		if t.Chance(1, 3) {
			// larger than the decoder's first read: several read(2) calls per file
			for len(data) < 600+t.Draw(1500) {
				data = append(data, g.fileText(3)...)
				data = append(data, '\n')
			}
		}
		c.Inputs = append(c.Inputs, ProcFile{Name: fmt.Sprintf("in%d.json", i), Data: QBytes(data), Kind: "regular"})
	}
	c.ViaF = t.Chance(1, 4)
	switch t.Weighted(5, 2, 2) {
	case 0:
		c.Strace = &StraceInj{Syscall: "read", When: 1 + t.Draw(4), Errno: []string{"EIO", "EINTR", "EBADF", "ENOMEM"}[t.Weighted(5, 0, 1, 1)], Input: t.Draw(n)}
		if t.Chance(1, 3) && n == 1 {
			c.OMode = []string{"-", "file"}[t.Draw(2)]
		}
	case 1:
		c.Strace = &StraceInj{Syscall: "openat", When: 1, Errno: []string{"EACCES", "EMFILE", "EIO"}[t.Draw(3)], Input: t.Draw(n)}
	default:
		c.Inputs = c.Inputs[:1]
		c.OMode = "existing"
		c.Strace = &StraceInj{Syscall: "write", When: 1, Errno: []string{"ENOSPC", "EIO", "EDQUOT"}[t.Draw(3)]}
	}
	return c
}

// ---------------------------------------------------------------- C03 at the process boundary: incremental output

var straceRetRe = regexp.MustCompile(`= (-?\d+)`)

// runCliIncremental: monitor M1 for the real binary. The binary reads a named
// file of several hundred to a few thousand bytes (so that the decoder issues
// several read(2) calls); strace logs, in order, every read on that file and
// every write to the stdout file. At each read, all output owed for the values
// that are complete (plus one byte) in the bytes delivered so far must already
// have been written. No clock is involved: only the order of system calls.
func runCliIncremental(c *StreamCase, keep bool) Outcome {
	log := newEventLog(keep)
	o := Outcome{Probes: map[string]int{}, Faults: map[string]int{}, Nontrivial: true}
	finish := func() Outcome {
		o.LogHash, o.Log, o.Steps = fmt.Sprintf("%x", hashStr(c.ProgText)), log.lines, log.seq
		return o
	}
	if _, err := os.Stat("/usr/bin/strace"); err != nil || jqawkBin() == "" {
		o.Skipped = "ptrace: strace unavailable"
		return finish()
	}
	if c.ProgText == "" && c.Prog != nil {
		c.ProgText = c.Prog.Render()
	}
	if len(c.Files) != 1 || c.Prog == nil {
		o.Skipped = "needs exactly one input file and a trace program"
		return finish()
	}
	data := []byte(c.Files[0].Data)
	ref := ScanStream(data)
	if ref.Status != RefClean || ref.Dubious {
		o.Skipped = "needs a clean stream"
		return finish()
	}
	var vals []*JVal
	for _, v := range ref.Values {
		vals = append(vals, v.V)
	}
	name := "in.json"
	model := RunModel(c.Prog, []ModelFile{{name, vals}}, nil, true)
	if !model.OK {
		o.Skipped = "outside model domain: " + model.Why
		return finish()
	}
	n := atomic.AddInt64(&procCounter, 1)
	dir := filepath.Join(procScratch(), fmt.Sprintf("inc-%d-%d", os.Getpid(), n))
	if err := os.MkdirAll(dir, 0o755); err != nil {
		o.Class, o.Msg = "harness", err.Error()
		return finish()
	}
	defer os.RemoveAll(dir)
	os.WriteFile(filepath.Join(dir, name), data, 0o644)
	os.WriteFile(filepath.Join(dir, "prog.jqawk"), []byte(c.ProgText), 0o644)
	so, _ := os.Create(filepath.Join(dir, "stdout.txt"))
	se, _ := os.Create(filepath.Join(dir, "stderr.txt"))
	defer so.Close()
	defer se.Close()
	cmd := exec.Command("/usr/bin/strace", "-f", "-qq", "-o", filepath.Join(dir, "trace.log"), "-e", "trace=read,write", "-P", name, "-P", "stdout.txt", jqawkBin(), "-f", "prog.jqawk", name)
	cmd.Dir = dir
	cmd.Stdout, cmd.Stderr = so, se
	cmd.Env = []string{"PATH=/usr/bin:/bin", "HOME=" + dir}
	if err := cmd.Start(); err != nil {
		o.Class, o.Msg = "harness", err.Error()
		return finish()
	}
	timer := time.AfterFunc(120*time.Second, func() { cmd.Process.Kill() })
	werr := cmd.Wait()
	if !timer.Stop() {
		o.Class, o.Msg = "harness", "binary under strace exceeded the watchdog"
		return finish()
	}
	errb, _ := os.ReadFile(filepath.Join(dir, "stderr.txt"))
	if strings.Contains(string(errb), "PTRACE") || strings.Contains(string(errb), "ptrace") {
		o.Skipped = "ptrace: not permitted in this sandbox"
		return finish()
	}
	outb, _ := os.ReadFile(filepath.Join(dir, "stdout.txt"))
	tl, _ := os.ReadFile(filepath.Join(dir, "trace.log"))
	delivered, written, reads := 0, 0, 0
	for _, l := range strings.Split(string(tl), "\n") {
		if strings.Contains(l, "<unfinished") || strings.TrimSpace(l) == "" {
			continue
		}
		isRead := strings.Contains(l, " read(") || strings.Contains(l, "read resumed>")
		isWrite := strings.Contains(l, " write(") || strings.Contains(l, "write resumed>")
		if !isRead && !isWrite {
			continue
		}
		idx := strings.LastIndex(l, "= ")
		if idx < 0 {
			continue
		}
		k, err := strconv.Atoi(strings.Fields(l[idx+2:])[0])
		if err != nil || k < 0 {
			continue
		}
		if isWrite {
			written += k
			continue
		}
		// a read on the input is about to be issued: what is owed by now?
		reads++
		vi := -1
		for i, v := range ref.Values {
			if v.End+1 <= delivered {
				vi = i
			}
		}
		owed := model.PrefixLen(0, vi)
		log.add('P', 0, "READ delivered=%d written=%d owed=%d", delivered, written, owed)
		if written < owed {
			o.Class = "late-output"
			o.Msg = fmt.Sprintf("the binary issued a further read on %s after %d bytes (value #%d and one following byte delivered) having written only %d of the %d output bytes owed by then", name, delivered, vi, written, owed)
			return finish()
		}
		delivered += k
	}
	o.Probes["cli_reads"] += reads
	if reads >= 3 {
		o.Probes["cli_three_or_more_reads"]++
	}
	o.Shape = fmt.Sprintf("cli-inc|reads=%d|vals=%d", reads, len(vals))
	if werr != nil || string(outb) != model.Text() {
		o.Class = "stdout-mismatch"
		o.Msg = fmt.Sprintf("exit error %v; stdout differs from the reference schedule\n--- expected ---\n%s--- observed ---\n%s", werr, truncate(model.Text(), 500), truncate(string(outb), 500))
	}
	return finish()
}

func cliIncrementalWorkload(count map[string]int) *Workload {
	return &Workload{
		Name:  "cli-incremental",
		Count: func(tier string) int { return count[tier] },
		Gen: func(i int, t *Tape, tier string) any {
			c := genStreamCase(t, streamGenOpts{mode: "c03", maxFiles: 1, maxVals: 6, sigProb: 10})
			if len(c.Files) == 0 {
				c.Files = []SimFile{{Name: "in.json"}}
			}
			c.Files = c.Files[:1]
			c.Files[0].Name = "in.json"
			c.Selectors = nil
			c.Fault = nil
			g := &streamGen{t: t, profile: t.Weighted(3, 3, 2, 2)}
			// long enough for several read(2) calls
			for len(c.Files[0].Data) < 700+t.Draw(2500) {
				c.Files[0].Data = append(c.Files[0].Data, g.fileText(1+t.Draw(3))...)
				c.Files[0].Data = append(c.Files[0].Data, '\n')
			}
			c.Files[0].Sched = nil
			sanitizeSelectors(c)
			return c
		},
		Run:         func(c any, keep bool) Outcome { return runCliIncremental(c.(*StreamCase), keep) },
		New:         func() any { return &StreamCase{} },
		NoRecheck:   true,
		ShrinkEvals: 60,
	}
}
