package main

// Framework: workloads, worker processes (simulated nodes with crash
// isolation), the parent that shards case indices over them, violation
// handling (shrink on the draw tape, replay file, replay confirmation),
// known findings and evidence.

import (
	"bufio"
	"bytes"
	"encoding/json"
	"fmt"
	"hash/fnv"
	"io"
	"os"
	"os/exec"
	"path/filepath"
	"runtime"
	"sort"
	"strconv"
	"strings"
	"sync"
	"time"
)

type Workload struct {
	Name              string
	Count             func(tier string) int
	SeedIndex         func(i int) int // maps case index -> tape seed index (default identity)
	Gen               func(i int, t *Tape, tier string) any
	Run               func(c any, keepLog bool) Outcome
	New               func() any
	Isolated          bool // each case in its own OS process (resource shapes)
	NondetIsViolation bool // a determinism mismatch is the violation itself (C10)
	NoRecheck         bool
	ShrinkEvals       int                                   // cap on shrink evaluations (0: default)
	Simplify          func(w *Workload, c any) []func() any // lazily built structural simplification candidates (second shrinking pass)
}

type Property struct {
	ID          string
	Level       string
	Rule        string
	Assumptions []string
	Workloads   []*Workload
	Components  map[string][]string
}

var registry = map[string]*Property{}

func register(p *Property) { registry[p.ID] = p }

func (p *Property) workload(name string) *Workload {
	for _, w := range p.Workloads {
		if w.Name == name {
			return w
		}
	}
	return nil
}

func seedFromEnv() int64 {
	s := os.Getenv("VERIF_SEED")
	if s == "" {
		return 1
	}
	v, err := strconv.ParseInt(s, 10, 64)
	if err != nil {
		fmt.Fprintf(os.Stderr, "bad VERIF_SEED %q\n", s)
		os.Exit(2)
	}
	return v
}

func caseTape(seed int64, prop string, w *Workload, i int) *Tape {
	si := i
	if w.SeedIndex != nil {
		si = w.SeedIndex(i)
	}
	return NewTape(DeriveSeed(seed, prop, w.Name, strconv.Itoa(si)))
}

// ---------------------------------------------------------------- worker

type workerStats struct {
	Evaluations int                          `json:"evaluations"`
	PerWorkload map[string]int               `json:"per_workload"`
	Nontrivial  int                          `json:"nontrivial"`
	Shapes      []uint64                     `json:"shapes"`
	Steps       int64                        `json:"steps"`
	Faults      map[string]int               `json:"faults"`
	Probes      map[string]int               `json:"probes"`
	Skipped     map[string]int               `json:"skipped"`
	Rechecked   int                          `json:"rechecked"`
	Mismatches  []string                     `json:"mismatches"`
	Samples     map[string][]json.RawMessage `json:"samples"`
}

type violation struct {
	Workload string `json:"workload"`
	Index    int    `json:"index"`
	Class    string `json:"class"`
	Msg      string `json:"msg"`
	wlOrder  int
}

const shapeCap = 150000

func hashStr(s string) uint64 {
	h := fnv.New64a()
	h.Write([]byte(s))
	return h.Sum64()
}

// memoryCeiling: the simulated machine has 6 GiB. A generated program that
// needs more (a string doubled in a loop: 2^n bytes after n statements, far
// inside any statement budget) is outside the explored space -- unbounded
// memory in bounded steps is C20's subject, not claimed -- and must not be taken
// for a crash of the interpreter when the kernel kills the process.
const memoryCeiling = 6 << 30

const memorySkip = "the case needs more memory than the simulated machine has (6 GiB): outside the explored space"

func watchMemory(onExceed func()) {
	go func() {
		var ms runtime.MemStats
		for {
			time.Sleep(20 * time.Millisecond)
			runtime.ReadMemStats(&ms)
			if ms.HeapAlloc > memoryCeiling {
				onExceed()
			}
		}
	}()
}

func workerMain(args []string) {
	watchMemory(func() {
		os.Stdout.Write([]byte("M\n"))
		os.Exit(77)
	})
	// worker <P> <tier> <seed> <shard> <nshards> <wlStart> <iStart>
	prop := registry[args[0]]
	tier := args[1]
	seed, _ := strconv.ParseInt(args[2], 10, 64)
	shard, _ := strconv.Atoi(args[3])
	nshards, _ := strconv.Atoi(args[4])
	wlStart, _ := strconv.Atoi(args[5])
	iStart, _ := strconv.Atoi(args[6])
	st := workerStats{PerWorkload: map[string]int{}, Faults: map[string]int{}, Probes: map[string]int{}, Skipped: map[string]int{}, Samples: map[string][]json.RawMessage{}}
	shapes := map[uint64]struct{}{}
	out := os.Stdout
	for wi, w := range prop.Workloads {
		if wi < wlStart || w.Isolated {
			continue
		}
		n := w.Count(tier)
		first := shard
		if wi == wlStart && iStart > first {
			first = iStart
		}
		for i := first; i < n; i += nshards {
			fmt.Fprintf(out, "S %d %d\n", wi, i)
			t := caseTape(seed, prop.ID, w, i)
			c := w.Gen(i, t, tier)
			keep := len(st.Samples[w.Name]) < 1 && shard == 0
			o := w.Run(c, keep)
			st.Evaluations++
			st.PerWorkload[w.Name]++
			st.Steps += int64(o.Steps)
			for k, v := range o.Faults {
				st.Faults[k] += v
			}
			for k, v := range o.Probes {
				st.Probes[k] += v
			}
			if o.Skipped != "" {
				st.Skipped[o.Skipped]++
			}
			if o.Nontrivial {
				st.Nontrivial++
				if len(shapes) < shapeCap {
					shapes[hashStr(w.Name+"|"+o.Shape)] = struct{}{}
				}
			}
			if keep && o.Class == "" {
				cj, _ := json.Marshal(c)
				cj = capSample(cj)
				sample, _ := json.Marshal(map[string]any{"workload": w.Name, "index": i, "case": json.RawMessage(cj), "event_log": o.Log, "log_hash": o.LogHash})
				st.Samples[w.Name] = append(st.Samples[w.Name], sample)
			}
			if o.Class == "harness" {
				if len(st.Mismatches) < 5 {
					st.Mismatches = append(st.Mismatches, fmt.Sprintf("%s#%d harness trouble: %s", w.Name, i, o.Msg))
				}
			} else if o.Class != "" {
				vj, _ := json.Marshal(violation{Workload: w.Name, Index: i, Class: o.Class, Msg: o.Msg})
				fmt.Fprintf(out, "V %s\n", vj)
			}
			// determinism re-check on a fixed fraction of cases
			if !w.NoRecheck && (i/nshards)%50 == 0 {
				t2 := caseTape(seed, prop.ID, w, i)
				c2 := w.Gen(i, t2, tier)
				o2 := w.Run(c2, false)
				st.Rechecked++
				if o2.LogHash != o.LogHash || o2.Class != o.Class {
					if w.NondetIsViolation {
						vj, _ := json.Marshal(violation{Workload: w.Name, Index: i, Class: "nondeterministic", Msg: "two executions of the same case differ"})
						fmt.Fprintf(out, "V %s\n", vj)
					} else if len(st.Mismatches) < 5 {
						st.Mismatches = append(st.Mismatches, fmt.Sprintf("%s#%d", w.Name, i))
					}
				}
			}
		}
	}
	for k := range shapes {
		st.Shapes = append(st.Shapes, k)
	}
	sort.Slice(st.Shapes, func(a, b int) bool { return st.Shapes[a] < st.Shapes[b] })
	sj, _ := json.Marshal(st)
	fmt.Fprintf(out, "STATS %s\n", sj)
}

// ---------------------------------------------------------------- parent

type checkResult struct {
	stats      workerStats
	violations []violation
	shapes     map[uint64]struct{}
	trouble    []string
}

func selfExe() string {
	exe, err := os.Executable()
	if err != nil {
		fmt.Fprintln(os.Stderr, "cannot locate own executable:", err)
		os.Exit(2)
	}
	return exe
}

func runWorkers(prop *Property, tier string, seed int64, nworkers int, deadline time.Time) *checkResult {
	res := &checkResult{shapes: map[uint64]struct{}{}}
	res.stats = workerStats{PerWorkload: map[string]int{}, Faults: map[string]int{}, Probes: map[string]int{}, Skipped: map[string]int{}, Samples: map[string][]json.RawMessage{}}
	var mu sync.Mutex
	var wg sync.WaitGroup
	for s := 0; s < nworkers; s++ {
		wg.Add(1)
		go func(shard int) {
			defer wg.Done()
			wlStart, iStart := 0, 0
			for restarts := 0; restarts < 200; restarts++ {
				cmd := exec.Command(selfExe(), "worker", prop.ID, tier, strconv.FormatInt(seed, 10), strconv.Itoa(shard), strconv.Itoa(nworkers), strconv.Itoa(wlStart), strconv.Itoa(iStart))
				cmd.Stderr = io.Discard
				stdout, err := cmd.StdoutPipe()
				if err != nil {
					mu.Lock()
					res.trouble = append(res.trouble, err.Error())
					mu.Unlock()
					return
				}
				if err := cmd.Start(); err != nil {
					mu.Lock()
					res.trouble = append(res.trouble, err.Error())
					mu.Unlock()
					return
				}
				timer := time.AfterFunc(time.Until(deadline), func() { cmd.Process.Kill() })
				rd := bufio.NewReaderSize(stdout, 1<<20)
				lastW, lastI := -1, -1
				done := false
				memCeil := false
				for {
					line, err := rd.ReadString('\n')
					if len(line) > 0 {
						line = strings.TrimRight(line, "\n")
						switch {
						case line == "M":
							memCeil = true
						case strings.HasPrefix(line, "S "):
							fmt.Sscanf(line, "S %d %d", &lastW, &lastI)
						case strings.HasPrefix(line, "V "):
							var v violation
							if json.Unmarshal([]byte(line[2:]), &v) == nil {
								for wi, w := range prop.Workloads {
									if w.Name == v.Workload {
										v.wlOrder = wi
									}
								}
								mu.Lock()
								res.violations = append(res.violations, v)
								mu.Unlock()
							}
						case strings.HasPrefix(line, "STATS "):
							var st workerStats
							if err := json.Unmarshal([]byte(line[6:]), &st); err == nil {
								mu.Lock()
								mergeStats(&res.stats, &st, res.shapes)
								mu.Unlock()
								done = true
							}
						}
					}
					if err != nil {
						break
					}
				}
				cmd.Wait()
				timer.Stop()
				if done {
					return
				}
				if time.Now().After(deadline) {
					mu.Lock()
					res.trouble = append(res.trouble, fmt.Sprintf("worker %d: watchdog expired at workload %d case %d", shard, lastW, lastI))
					mu.Unlock()
					return
				}
				// the worker died inside a case: that is a crash observation
				if lastW < 0 {
					mu.Lock()
					res.trouble = append(res.trouble, fmt.Sprintf("worker %d died before its first case", shard))
					mu.Unlock()
					return
				}
				if memCeil {
					mu.Lock()
					res.stats.Skipped[memorySkip]++
					res.stats.Evaluations++
					mu.Unlock()
					wlStart, iStart = lastW, lastI+nworkers
					continue
				}
				mu.Lock()
				res.violations = append(res.violations, violation{Workload: prop.Workloads[lastW].Name, Index: lastI, Class: "crash", Msg: "the worker process died while executing this case (Go runtime fatal error)", wlOrder: lastW})
				res.stats.Evaluations++
				mu.Unlock()
				wlStart, iStart = lastW, lastI+nworkers
			}
		}(s)
	}
	wg.Wait()
	sort.Slice(res.violations, func(a, b int) bool {
		x, y := res.violations[a], res.violations[b]
		if x.wlOrder != y.wlOrder {
			return x.wlOrder < y.wlOrder
		}
		return x.Index < y.Index
	})
	return res
}

func mergeStats(dst, src *workerStats, shapes map[uint64]struct{}) {
	dst.Evaluations += src.Evaluations
	dst.Nontrivial += src.Nontrivial
	dst.Steps += src.Steps
	dst.Rechecked += src.Rechecked
	dst.Mismatches = append(dst.Mismatches, src.Mismatches...)
	for k, v := range src.PerWorkload {
		dst.PerWorkload[k] += v
	}
	for k, v := range src.Faults {
		dst.Faults[k] += v
	}
	for k, v := range src.Probes {
		dst.Probes[k] += v
	}
	for k, v := range src.Skipped {
		dst.Skipped[k] += v
	}
	for k, v := range src.Samples {
		if len(dst.Samples[k]) < 2 {
			dst.Samples[k] = append(dst.Samples[k], v...)
		}
	}
	for _, s := range src.Shapes {
		shapes[s] = struct{}{}
	}
}

// runIsolated executes one case in a fresh OS process (`simcheck one`).
func runIsolated(prop *Property, w *Workload, c any, timeout time.Duration) Outcome {
	cj, _ := json.Marshal(c)
	cmd := exec.Command(selfExe(), "one", prop.ID, w.Name)
	cmd.Stdin = bytes.NewReader(cj)
	var out bytes.Buffer
	cmd.Stdout = &out
	cmd.Stderr = io.Discard
	if err := cmd.Start(); err != nil {
		return Outcome{Class: "harness", Msg: err.Error()}
	}
	timer := time.AfterFunc(timeout, func() { cmd.Process.Kill() })
	err := cmd.Wait()
	fired := !timer.Stop()
	if fired {
		return Outcome{Class: "harness", Msg: "isolated case exceeded the watchdog"}
	}
	var o Outcome
	if jerr := json.Unmarshal(out.Bytes(), &o); jerr != nil {
		msg := "the process executing this case died (Go runtime fatal error)"
		if err != nil {
			msg += ": " + err.Error()
		}
		return Outcome{Class: "crash", Msg: msg, LogHash: "crash"}
	}
	return o
}

func oneMain(args []string) {
	prop := registry[args[0]]
	w := prop.workload(args[1])
	if w == nil {
		fmt.Fprintln(os.Stderr, "unknown workload")
		os.Exit(2)
	}
	watchMemory(func() {
		oj, _ := json.Marshal(Outcome{Skipped: memorySkip, LogHash: "memory-ceiling"})
		os.Stdout.Write(oj)
		os.Exit(0)
	})
	data, _ := io.ReadAll(os.Stdin)
	c := w.New()
	if err := json.Unmarshal(data, c); err != nil {
		fmt.Fprintln(os.Stderr, "bad case:", err)
		os.Exit(2)
	}
	o := w.Run(c, true)
	oj, _ := json.Marshal(o)
	os.Stdout.Write(oj)
}

// ---------------------------------------------------------------- replay files

type replayFile struct {
	Property string          `json:"property"`
	Workload string          `json:"workload"`
	Tier     string          `json:"tier"`
	Seed     int64           `json:"seed"`
	Index    int             `json:"index"`
	Class    string          `json:"class"`
	Msg      string          `json:"msg"`
	Tape     []uint32        `json:"tape"`
	Case     json.RawMessage `json:"case"`
	LogHash  string          `json:"log_hash"`
	Log      []string        `json:"event_log"`
	Shrink   map[string]int  `json:"shrink"`
	// Prelude: cases of the same workload that the worker had run, in this
	// order, in the same process before the failing one. Present only when the
	// case does not fail on its own: a replay runs them first.
	Prelude []json.RawMessage `json:"prelude,omitempty"`
}

// shardsInUse: how many worker processes share a workload's indices (case i
// runs in worker i mod shardsInUse, after case i - shardsInUse)
var shardsInUse = 16

func verifDir() string {
	if d := os.Getenv("VERIF_DIR"); d != "" {
		return d
	}
	return "/verif"
}

func outDir() string {
	if d := os.Getenv("VERIF_OUT"); d != "" {
		return d
	}
	return verifDir()
}

func runCaseMaybeIsolated(prop *Property, w *Workload, c any, isolated bool) Outcome {
	if isolated || w.Isolated {
		return runIsolated(prop, w, c, 10*time.Minute)
	}
	return w.Run(c, true)
}

// reportViolation shrinks, writes the replay file, confirms the replay in a
// fresh process and returns the path ("" if it did not reproduce).
func reportViolation(prop *Property, tier string, seed int64, v violation) (string, string) {
	w := prop.workload(v.Workload)
	isolated := v.Class == "crash" || w.Isolated
	t := caseTape(seed, prop.ID, w, v.Index)
	c := w.Gen(v.Index, t, tier)
	tape := append([]uint32(nil), t.Rec...)
	o := runCaseMaybeIsolated(prop, w, c, isolated)
	if o.Class != v.Class && !(w.NondetIsViolation && v.Class == "nondeterministic") {
		// it may fail only after what its worker had run before it in the same
		// process: replay it behind its predecessors in a fresh process
		if !isolated && !w.Isolated {
			var prelude []json.RawMessage
			for k := 8; k >= 1; k-- {
				if j := v.Index - k*shardsInUse; j >= 0 {
					pc := w.Gen(j, caseTape(seed, prop.ID, w, j), tier)
					pj, _ := json.Marshal(pc)
					prelude = append(prelude, pj)
				}
			}
			if len(prelude) > 0 {
				cj, _ := json.MarshalIndent(c, " ", " ")
				rf := replayFile{Property: prop.ID, Workload: w.Name, Tier: tier, Seed: seed, Index: v.Index, Class: v.Class, Msg: "(fails only after the preceding cases of the same worker have run in the same process) " + v.Msg, Tape: tape, Case: cj, Prelude: prelude, Shrink: map[string]int{"minimisation_abandoned": 1}}
				dir := filepath.Join(outDir(), "replays", prop.ID)
				os.MkdirAll(dir, 0o755)
				path := filepath.Join(dir, fmt.Sprintf("%s-%s-%d-%d.json", v.Class, w.Name, seed, v.Index))
				rj, _ := json.MarshalIndent(rf, "", " ")
				if err := os.WriteFile(path, rj, 0o644); err == nil {
					for attempt := 0; attempt < 2; attempt++ {
						cmd := exec.Command(selfExe(), "replay", path)
						cmd.Env = append(os.Environ(), "SIM_REPLAY_QUIET=1")
						cmd.CombinedOutput()
						if cmd.ProcessState != nil && cmd.ProcessState.ExitCode() == 1 {
							return path, ""
						}
					}
					os.Remove(path)
				}
			}
		}
		return "", fmt.Sprintf("violation %s#%d class %s did not re-occur when regenerated in the parent (got %q)", v.Workload, v.Index, v.Class, o.Class)
	}
	maxEvals := 1500
	if isolated {
		maxEvals = 60
	}
	if w.ShrinkEvals > 0 {
		maxEvals = w.ShrinkEvals
	}
	evals := 0
	// minimisation is a courtesy to the reader of the replay file: it is cut
	// short on cases whose single execution is slow (the violation is reported
	// either way, with whatever was reached)
	shrinkDeadline := time.Now().Add(100 * time.Second)
	if v.Class != "nondeterministic" {
		fails := func(tp []uint32) bool {
			if time.Now().After(shrinkDeadline) {
				return false
			}
			cc := w.Gen(v.Index, ReplayTape(tp), tier)
			oo := runCaseMaybeIsolated(prop, w, cc, isolated)
			return oo.Class == v.Class
		}
		tape, evals = ShrinkTape(tape, fails, maxEvals)
		c = w.Gen(v.Index, ReplayTape(tape), tier)
		o = runCaseMaybeIsolated(prop, w, c, isolated)
	}
	// second pass: structural simplification of the materialised case
	structEvals, structSteps := 0, 0
	if w.Simplify != nil && v.Class != "nondeterministic" {
		budget := maxEvals / 2
		for round := 0; round < 200 && structEvals < budget; round++ {
			improved := false
			for _, mk := range w.Simplify(w, c) {
				if structEvals >= budget || time.Now().After(shrinkDeadline.Add(60*time.Second)) {
					break
				}
				cand := mk()
				if cand == nil {
					continue
				}
				structEvals++
				oo := runCaseMaybeIsolated(prop, w, cand, isolated)
				if oo.Class == v.Class {
					c, o = cand, oo
					improved = true
					structSteps++
					break
				}
			}
			if !improved {
				break
			}
		}
	}
	dir := filepath.Join(outDir(), "replays", prop.ID)
	os.MkdirAll(dir, 0o755)
	path := filepath.Join(dir, fmt.Sprintf("%s-%s-%d-%d.json", v.Class, w.Name, seed, v.Index))
	writeAndConfirm := func(c any, o Outcome, tape []uint32, shrink map[string]int) string {
		cj, _ := json.MarshalIndent(c, " ", " ")
		rf := replayFile{Property: prop.ID, Workload: w.Name, Tier: tier, Seed: seed, Index: v.Index, Class: v.Class, Msg: o.Msg, Tape: tape, Case: cj, LogHash: o.LogHash, Log: o.Log, Shrink: shrink}
		if rf.Msg == "" {
			rf.Msg = v.Msg
		}
		rj, _ := json.MarshalIndent(rf, "", " ")
		if err := os.WriteFile(path, rj, 0o644); err != nil {
			return err.Error()
		}
		// confirm in a fresh process (three attempts: a defect whose showing
		// depends on memory reuse or map order need not show every time)
		var outb []byte
		for attempt := 0; attempt < 3; attempt++ {
			cmd := exec.Command(selfExe(), "replay", path)
			cmd.Env = append(os.Environ(), "SIM_REPLAY_QUIET=1")
			outb, _ = cmd.CombinedOutput()
			if cmd.ProcessState != nil && cmd.ProcessState.ExitCode() == 1 {
				return ""
			}
		}
		return fmt.Sprintf("replay of %s did not reproduce the violation: %s", path, strings.TrimSpace(string(outb)))
	}
	problem := writeAndConfirm(c, o, tape, map[string]int{"evaluations": evals, "tape_len_before": len(t.Rec), "tape_len_after": len(tape), "structural_evaluations": structEvals, "structural_steps": structSteps})
	if problem != "" && (evals > 0 || structEvals > 0) {
		// the reduced case does not fail in a fresh process: it may owe its failure
		// to what the minimising process had run before. Fall back to the case as
		// generated; only if that does not reproduce either is it harness trouble.
		c0 := w.Gen(v.Index, ReplayTape(t.Rec), tier)
		o0 := runCaseMaybeIsolated(prop, w, c0, isolated)
		if o0.Class == v.Class {
			if p2 := writeAndConfirm(c0, o0, append([]uint32(nil), t.Rec...), map[string]int{"minimisation_abandoned": 1, "evaluations": evals}); p2 == "" {
				return path, ""
			}
		}
	}
	if problem != "" {
		return "", problem
	}
	return path, ""
}

func replayMain(path string) int {
	data, err := os.ReadFile(path)
	if err != nil {
		fmt.Fprintln(os.Stderr, err)
		return 2
	}
	var rf replayFile
	if err := json.Unmarshal(data, &rf); err != nil {
		fmt.Fprintln(os.Stderr, "bad replay file:", err)
		return 2
	}
	prop := registry[rf.Property]
	if prop == nil {
		fmt.Fprintln(os.Stderr, "unknown property", rf.Property)
		return 2
	}
	w := prop.workload(rf.Workload)
	if w == nil {
		fmt.Fprintln(os.Stderr, "unknown workload", rf.Workload)
		return 2
	}
	c := w.New()
	if err := json.Unmarshal(rf.Case, c); err != nil {
		fmt.Fprintln(os.Stderr, "bad case:", err)
		return 2
	}
	for _, pj := range rf.Prelude {
		pc := w.New()
		if err := json.Unmarshal(pj, pc); err == nil {
			w.Run(pc, false)
		}
	}
	o := runCaseMaybeIsolated(prop, w, c, rf.Class == "crash")
	quiet := os.Getenv("SIM_REPLAY_QUIET") != ""
	if o.Class == rf.Class || (rf.Class == "nondeterministic" && o.Class != "") {
		same := o.LogHash == rf.LogHash || rf.Class == "crash" || rf.Class == "nondeterministic"
		if !quiet {
			fmt.Printf("replayed %s: class=%s event-log hash %s (recorded %s)\n%s\n", path, o.Class, o.LogHash, rf.LogHash, o.Msg)
			for _, l := range o.Log {
				fmt.Println("  " + l)
			}
		}
		if !same {
			fmt.Printf("NOTE: same violation class but a different event log\n")
		}
		fmt.Printf("VIOLATION property=%s replay=%s\n", rf.Property, path)
		return 1
	}
	fmt.Printf("not reproduced: recorded class %q, observed %q\n", rf.Class, o.Class)
	return 0
}

// ---------------------------------------------------------------- known findings

type knownFinding struct {
	Property string          `json:"property"`
	ID       string          `json:"id"`
	Status   string          `json:"status"` // known | fixed
	Workload string          `json:"workload"`
	Class    string          `json:"class"`
	What     string          `json:"what"`
	Commit   string          `json:"commit,omitempty"`
	Case     json.RawMessage `json:"case"`
}

func loadKnownFindings() []knownFinding {
	data, err := os.ReadFile(filepath.Join(verifDir(), "known_findings.json"))
	if err != nil {
		return nil
	}
	var kf []knownFinding
	if err := json.Unmarshal(data, &kf); err != nil {
		fmt.Fprintln(os.Stderr, "known_findings.json:", err)
		os.Exit(2)
	}
	return kf
}

// ---------------------------------------------------------------- check

func checkMain(propID, tier string) int {
	prop := registry[propID]
	if prop == nil {
		fmt.Fprintf(os.Stderr, "unknown or unclaimed property %s\n", propID)
		return 2
	}
	if tier != "quick" && tier != "thorough" {
		fmt.Fprintln(os.Stderr, "tier must be quick or thorough")
		return 2
	}
	seed := seedFromEnv()
	fmt.Printf("VERIF_SEED=%d property=%s tier=%s\n", seed, propID, tier)
	t0 := time.Now()
	nworkers := 16
	if s := os.Getenv("VERIF_WORKERS"); s != "" {
		if v, err := strconv.Atoi(s); err == nil && v > 0 {
			nworkers = v
		}
	}
	budget := 20 * time.Minute
	if tier == "thorough" {
		budget = 6 * time.Hour
	}
	deadline := t0.Add(budget)

	exit := 0
	var knownPrinted []string
	nViol := 0
	var trouble []string

	// 1. known findings and fixed regressions: pinned witnesses, each in its own process
	for _, kf := range loadKnownFindings() {
		if kf.Property != propID {
			continue
		}
		w := prop.workload(kf.Workload)
		if w == nil {
			trouble = append(trouble, "known finding "+kf.ID+": unknown workload "+kf.Workload)
			continue
		}
		c := w.New()
		if err := json.Unmarshal(kf.Case, c); err != nil {
			trouble = append(trouble, "known finding "+kf.ID+": "+err.Error())
			continue
		}
		o := runIsolated(prop, w, c, 10*time.Minute)
		if o.Class == "harness" {
			trouble = append(trouble, "known finding "+kf.ID+": "+o.Msg)
			continue
		}
		switch kf.Status {
		case "known":
			if o.Class == kf.Class {
				line := fmt.Sprintf("KNOWN-FINDING: property=%s %s: %s", propID, kf.ID, kf.What)
				fmt.Println(line)
				knownPrinted = append(knownPrinted, kf.ID)
			} else if o.Class != "" {
				// a different violation on the same witness is not the listed finding
				path := writeWitnessReplay(prop, w, kf, o, tier, seed)
				fmt.Printf("VIOLATION property=%s replay=%s\n", propID, path)
				nViol++
				exit = 1
			}
		case "fixed":
			if o.Class != "" {
				path := writeWitnessReplay(prop, w, kf, o, tier, seed)
				fmt.Printf("regression of fixed finding %s (%s): %s\n", kf.ID, kf.What, o.Msg)
				fmt.Printf("VIOLATION property=%s replay=%s\n", propID, path)
				nViol++
				exit = 1
			}
		}
	}

	// 2. isolated workloads (each case its own process), run from the parent
	shardsInUse = nworkers
	res := runWorkers(prop, tier, seed, nworkers, deadline)
	for wi, w := range prop.Workloads {
		if !w.Isolated {
			continue
		}
		n := w.Count(tier)
		type isoRes struct {
			i int
			o Outcome
			c any
		}
		results := make([]isoRes, n)
		var wg sync.WaitGroup
		sem := make(chan struct{}, nworkers)
		for i := 0; i < n; i++ {
			wg.Add(1)
			sem <- struct{}{}
			go func(i int) {
				defer wg.Done()
				defer func() { <-sem }()
				t := caseTape(seed, prop.ID, w, i)
				c := w.Gen(i, t, tier)
				results[i] = isoRes{i, runIsolated(prop, w, c, 10*time.Minute), c}
			}(i)
		}
		wg.Wait()
		for _, r := range results {
			res.stats.Evaluations++
			res.stats.PerWorkload[w.Name]++
			res.stats.Steps += int64(r.o.Steps)
			for k, v := range r.o.Probes {
				res.stats.Probes[k] += v
			}
			if r.o.Nontrivial {
				res.stats.Nontrivial++
				res.shapes[hashStr(w.Name+"|"+r.o.Shape)] = struct{}{}
			}
			if len(res.stats.Samples[w.Name]) < 1 && r.o.Class == "" {
				cj, _ := json.Marshal(r.c)
				cj = capSample(cj)
				sample, _ := json.Marshal(map[string]any{"workload": w.Name, "index": r.i, "case": json.RawMessage(cj), "event_log": r.o.Log})
				res.stats.Samples[w.Name] = append(res.stats.Samples[w.Name], sample)
			}
			if r.o.Class == "harness" {
				trouble = append(trouble, w.Name+": "+r.o.Msg)
			} else if r.o.Class != "" {
				res.violations = append(res.violations, violation{Workload: w.Name, Index: r.i, Class: r.o.Class, Msg: r.o.Msg, wlOrder: wi})
			}
		}
	}
	trouble = append(trouble, res.trouble...)
	if len(res.stats.Mismatches) > 0 {
		trouble = append(trouble, "determinism re-check mismatches (harness or workload defect): "+strings.Join(res.stats.Mismatches, ", "))
	}

	// 3. violations: shrink, write replay, confirm, report (first few distinct classes)
	shrinkStats := map[string]int{}
	seenClass := map[string]int{}
	reported := 0
	for _, v := range res.violations {
		key := v.Workload + "/" + v.Class
		seenClass[key]++
		if seenClass[key] > 1 || reported >= 4 {
			continue
		}
		path, problem := reportViolation(prop, tier, seed, v)
		if problem != "" {
			trouble = append(trouble, problem)
			continue
		}
		reported++
		nViol++
		exit = 1
		fmt.Printf("violation %s#%d class=%s: %s\n", v.Workload, v.Index, v.Class, firstLine(v.Msg))
		fmt.Printf("VIOLATION property=%s replay=%s\n", propID, path)
		shrinkStats["reported"]++
	}
	if len(res.violations) > 0 {
		keys := make([]string, 0, len(seenClass))
		for k := range seenClass {
			keys = append(keys, k)
		}
		sort.Strings(keys)
		for _, k := range keys {
			fmt.Printf("  violating cases in %s: %d\n", k, seenClass[k])
		}
	}

	// 4. evidence
	wall := time.Since(t0).Seconds()
	writeEvidence(prop, tier, seed, res, wall, nViol, knownPrinted, trouble)

	if len(trouble) > 0 {
		for _, t := range trouble {
			fmt.Fprintln(os.Stderr, "HARNESS TROUBLE:", t)
		}
		if exit == 0 {
			return 2
		}
	}
	fmt.Printf("%s %s: %d cases, %d distinct non-trivial shapes, %d violation(s), %.1fs\n", propID, tier, res.stats.Evaluations, len(res.shapes), nViol, wall)
	return exit
}

// capSample keeps evidence files readable: a very large case (a megabyte
// value, a hundred thousand operations) is shown by its head only.
func capSample(cj []byte) []byte {
	if len(cj) <= 16000 {
		return cj
	}
	out, _ := json.Marshal(map[string]any{"truncated_sample": true, "bytes": len(cj), "head": string(cj[:4000])})
	return out
}

func firstLine(s string) string {
	if i := strings.IndexByte(s, '\n'); i >= 0 {
		return s[:i]
	}
	return s
}

func writeWitnessReplay(prop *Property, w *Workload, kf knownFinding, o Outcome, tier string, seed int64) string {
	rf := replayFile{Property: prop.ID, Workload: w.Name, Tier: tier, Seed: seed, Index: -1, Class: o.Class, Msg: o.Msg, Case: kf.Case, LogHash: o.LogHash, Log: o.Log}
	dir := filepath.Join(outDir(), "replays", prop.ID)
	os.MkdirAll(dir, 0o755)
	path := filepath.Join(dir, fmt.Sprintf("%s-witness-%s.json", o.Class, kf.ID))
	rj, _ := json.MarshalIndent(rf, "", " ")
	os.WriteFile(path, rj, 0o644)
	return path
}

func writeEvidence(prop *Property, tier string, seed int64, res *checkResult, wall float64, nViol int, known []string, trouble []string) {
	var samples []json.RawMessage
	names := make([]string, 0, len(res.stats.Samples))
	for k := range res.stats.Samples {
		names = append(names, k)
	}
	sort.Strings(names)
	for _, k := range names {
		for _, s := range res.stats.Samples[k] {
			if len(samples) < 6 {
				samples = append(samples, s)
			}
		}
	}
	if samples == nil {
		samples = []json.RawMessage{}
	}
	perHour := 0.0
	if wall > 0 {
		perHour = float64(res.stats.Evaluations) / wall * 3600
	}
	cov := map[string]any{
		"evaluations":                res.stats.Evaluations,
		"distinct_nontrivial":        len(res.shapes),
		"rule":                       prop.Rule,
		"samples":                    samples,
		"nontrivial_runs":            res.stats.Nontrivial,
		"per_workload":               res.stats.PerWorkload,
		"simulated_runs_per_hour":    int64(perHour),
		"seeds":                      []int64{seed},
		"logical_steps_covered":      res.stats.Steps,
		"faults_fired":               res.stats.Faults,
		"probes":                     res.stats.Probes,
		"verdicts_not_taken":         res.stats.Skipped,
		"determinism_recheck":        map[string]any{"reexecuted": res.stats.Rechecked, "mismatches": len(res.stats.Mismatches)},
		"known_findings_printed":     append([]string{}, known...),
		"harness_trouble":            append([]string{}, trouble...),
		"components":                 prop.Components,
		"distinct_measure_capped_at": shapeCap * 16,
	}
	ev := map[string]any{
		"property_id": prop.ID,
		"tier":        tier,
		"seed":        seed,
		"level":       prop.Level,
		"coverage":    cov,
		"assumptions": prop.Assumptions,
		"wall_s":      wall,
		"violations":  nViol,
	}
	ej, _ := json.MarshalIndent(ev, "", " ")
	dir := filepath.Join(outDir(), "evidence")
	os.MkdirAll(dir, 0o755)
	os.WriteFile(filepath.Join(dir, prop.ID+".json"), ej, 0o644)
}
