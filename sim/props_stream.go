package main

import (
	"bytes"
	"strconv"

	"fmt"
	lang "github.com/alligator/jqawk/src"
	"strings"
)

// Property registrations for the stream world: C02 and C03.

func streamWorkload(name string, count map[string]int, opts streamGenOpts) *Workload {
	return &Workload{
		Name:  name,
		Count: func(tier string) int { return count[tier] },
		Gen: func(i int, t *Tape, tier string) any {
			o := opts
			if tier == "thorough" {
				// deeper bounds: more files and more values per file
				o.maxFiles++
				o.maxVals += 4
			}
			if tier == "thorough" && o.bigProb > 0 {
				o.bigProb *= 2
				o.bigMax = 12000
			}
			return genStreamCase(t, o)
		},
		Run:      func(c any, keep bool) Outcome { return runStreamCase(c.(*StreamCase), keep) },
		New:      func() any { return &StreamCase{} },
		Simplify: simplifyStream,
	}
}

const sweepMaxLen = 96
const sweepSlots = (sweepMaxLen + 1) * 3 * 2

// sweepWorkload enumerates, for every seeded short stream, every truncation
// point and every I/O-error offset (with and without the preceding bytes in
// the same call), each under a one-byte schedule and a drawn schedule.
func sweepWorkload(count map[string]int) *Workload {
	return &Workload{
		Name:      "fault-sweep",
		Count:     func(tier string) int { return count[tier] * sweepSlots },
		SeedIndex: func(i int) int { return i / sweepSlots },
		Gen: func(i int, t *Tape, tier string) any {
			slot := t.Forced(i%sweepSlots, sweepSlots)
			var c *StreamCase
			// short streams only: redraw the size knobs until the stream fits
			o := streamGenOpts{mode: "c03", maxFiles: 2, maxVals: 3, selectors: true, sigProb: 15}
			c = genStreamCase(t, o)
			for k := range c.Files {
				c.Files[k].Sched = nil
			}
			if len(c.Files) == 0 {
				return c
			}
			fi := t.Draw(len(c.Files))
			data := c.Files[fi].Data
			off := slot / 6
			kind := (slot / 2) % 3
			sched := slot % 2
			if off > len(data) || len(data) > sweepMaxLen {
				// slot beyond this stream (or stream too long for the sweep): fault-free run
				return c
			}
			switch kind {
			case 0:
				c.Fault = &Fault{Kind: "TRUNC", File: fi, Off: off}
			case 1:
				c.Fault = &Fault{Kind: "EIO", File: fi, Off: off}
			default:
				c.Fault = &Fault{Kind: "EIO", File: fi, Off: off, WithData: true}
			}
			g := &streamGen{t: t}
			for k := range c.Files {
				vis, _ := c.Visible(k)
				if sched == 0 {
					s := make([]int, len(vis))
					for j := range s {
						s[j] = 1
					}
					c.Files[k].Sched = s
				} else {
					ref := ScanStream(vis)
					c.Files[k].Sched = g.schedule(len(vis), &ref)
				}
			}
			return c
		},
		Run:      func(c any, keep bool) Outcome { return runStreamCase(c.(*StreamCase), keep) },
		New:      func() any { return &StreamCase{} },
		Simplify: simplifyStream,
	}
}

// hugeWorkload: one value of one to three megabytes (an object whose "pad"
// member is a long string, so that the rules still run once for it) in front
// of, between or behind ordinary values; delivered at once, in large and in
// small chunks, with and without a fault behind it.
func hugeWorkload(count map[string]int) *Workload {
	return &Workload{
		Name:  "huge-values",
		Count: func(tier string) int { return count[tier] },
		Gen: func(i int, t *Tape, tier string) any {
			c := genStreamCase(t, streamGenOpts{mode: "c03", maxFiles: 1, maxVals: 4, selectors: false, sigProb: 10})
			if len(c.Files) == 0 {
				return c
			}
			size := 1100000 + t.Draw(3)*900000
			pad := strings.Repeat("x", size)
			huge := []byte(fmt.Sprintf("{\"id\": 424242, \"t\": true, \"pad\": \"%s\"}", pad))
			ref := ScanStream(c.Files[0].Data)
			pos := 0
			if n := len(ref.Values); n > 0 {
				k := t.Draw(n + 1)
				if k == n {
					pos = ref.Values[n-1].End
				} else {
					pos = ref.Values[k].Start
				}
			}
			d := c.Files[0].Data
			c.Files[0].Data = append(append(append(append(QBytes{}, d[:pos]...), huge...), '\n'), d[pos:]...)
			n := len(c.Files[0].Data)
			switch t.Weighted(3, 2, 2, 2) {
			case 0:
				c.Files[0].Sched = nil
			case 1: // large chunks that do not line up with the value
				var s []int
				for left := n; left > 0; {
					k := 60000 + t.Draw(70000)
					s = append(s, k)
					left -= k
				}
				c.Files[0].Sched = s
			case 2: // the huge value exactly, then the rest byte by byte
				c.Files[0].Sched = []int{pos + len(huge)}
				for k := 0; k < 64; k++ {
					c.Files[0].Sched = append(c.Files[0].Sched, 1)
				}
			default: // 4 KiB chunks
				var s []int
				for left := n; left > 0; left -= 4096 {
					s = append(s, 4096)
				}
				c.Files[0].Sched = s
			}
			if t.Chance(1, 2) {
				// a fault somewhere behind the huge value (the decoder's buffer has
				// grown by then), often exactly where a later value ends
				off := pos + len(huge) + t.Draw(n-pos-len(huge)+1)
				if t.Chance(2, 3) {
					ref2 := ScanStream(c.Files[0].Data)
					var ends []int
					for _, v := range ref2.Values {
						if v.End >= pos+len(huge) {
							ends = append(ends, v.End)
						}
					}
					if len(ends) > 0 {
						off = ends[t.Draw(len(ends))]
					}
				}
				c.Fault = &Fault{Kind: []string{"TRUNC", "EIO", "EIO"}[t.Draw(3)], File: 0, Off: off}
				if c.Fault.Kind == "EIO" {
					c.Fault.WithData = t.Chance(1, 2)
					c.Fault.Once = t.Chance(1, 2)
				}
			}
			return c
		},
		Run:         func(c any, keep bool) Outcome { return runStreamCase(c.(*StreamCase), keep) },
		New:         func() any { return &StreamCase{} },
		NoRecheck:   true,
		ShrinkEvals: 80,
	}
}

// longInputWorkload: one array of 110-160 thousand elements through a trace
// program in which some pattern rule executes `next` (directly, under if, in a
// function, in a loop) for every element: whatever a completed rule, next or
// call leaves behind per element accumulates over a long input.
func longInputWorkload(count map[string]int) *Workload {
	return &Workload{
		Name:  "long-inputs",
		Count: func(tier string) int { return count[tier] },
		Gen: func(i int, t *Tape, tier string) any {
			c := genStreamCase(t, streamGenOpts{mode: "c02", maxFiles: 1, maxVals: 2, selectors: false, benign: true, sigProb: 0})
			if len(c.Files) == 0 {
				c.Files = []SimFile{{Name: "long.json"}}
			}
			n := 110000 + t.Draw(50000)
			var sb strings.Builder
			sb.WriteString("[")
			for k := 0; k < n; k++ {
				if k > 0 {
					sb.WriteString(",")
				}
				sb.WriteString(fmt.Sprint(k % 1000))
			}
			sb.WriteString("]\n")
			c.Files[0].Data = append(QBytes(sb.String()), c.Files[0].Data...)
			c.Files[0].Sched = nil
			// every pattern rule with a body gets an unconditional signal placement drawn anew
			via := []string{"", "if", "func", "func2", "forin", "while", "match", "forpost", "whilecond", "forinit"}[t.Draw(10)]
			hasPattern := false
			for k := range c.Prog.Rules {
				r := &c.Prog.Rules[k]
				if r.Kind == "PATTERN" && !r.NoBody {
					hasPattern = true
					r.Pat = nil
					r.Sig = &Sig{What: "next", Pos: []string{"before", "after"}[t.Draw(2)], Via: via}
				}
			}
			if !hasPattern {
				c.Prog.Rules = append([]TRule{{Kind: "PATTERN", Tag: "rL", Sig: &Sig{What: "next", Pos: "after", Via: via}}}, c.Prog.Rules...)
				hasFlag := false
				for _, r := range c.Prog.Rules {
					if r.SetFlag {
						hasFlag = true
					}
				}
				if !hasFlag {
					c.Prog.Rules = append(c.Prog.Rules, TRule{Kind: "BEGINFILE", Tag: "rF", SetFlag: true})
				}
			}
			fixNoBody(c.Prog)
			c.ProgText = c.Prog.Render()
			sanitizeSelectors(c)
			return c
		},
		Run:         func(c any, keep bool) Outcome { return runStreamCase(c.(*StreamCase), keep) },
		New:         func() any { return &StreamCase{} },
		NoRecheck:   true,
		ShrinkEvals: 40,
	}
}

// ---- selector isolation (C02): every root selector selects from the JSON
// value as it was read. A rule that changes $ while one selector's root is
// current must not change what a later selector of the same value selects.

type IsoCase struct {
	Docs      []string `json:"docs"`
	Selectors []string `json:"selectors"`
}

const isoProgram = `function dg(v) {
  if (v is object) { return "O:" + v.n + ":" + v.mark + ":" + dg(v.items) + ":" + dg(v.sub) }
  if (v is array) { return "A:" + v.length() + ":" + v[0] }
  return "S:" + v
}
BEGINFILE { print "bf", dg($) }
BEGINFILE {
  if ($ is object) {
    $.mark = "m"
    $.n += 100
    if ($.items is array) { if ($.items.length() > 0) { $.items[0] = 99 } }
    if ($.sub is object) { $.sub.n += 1000
      $.sub.mark = "s"
      if ($.sub.items is array) { if ($.sub.items.length() > 0) { $.sub.items[0] = 55 } } }
  }
  if ($ is array) { if ($.length() > 0) { $[0] = 77 } }
}
BEGINFILE { print "after", dg($) }
`

func isoDigest(v *JVal, mutated bool) string {
	if v == nil {
		return "S:"
	}
	switch v.Kind {
	case 'o':
		n, mark := strForm(v.Get("n")), strForm(v.Get("mark"))
		return "O:" + n + ":" + mark + ":" + isoDigestSub(v.Get("items")) + ":" + isoDigestSub(v.Get("sub"))
	case 'a':
		first := ""
		if len(v.Arr) > 0 {
			first = strForm(v.Arr[0])
		}
		return "A:" + strconv.Itoa(len(v.Arr)) + ":" + first
	}
	return "S:" + strForm(v)
}

func isoDigestSub(v *JVal) string {
	if v == nil {
		return "S:"
	}
	return isoDigest(v, false)
}

// isoMutate applies the second BEGINFILE rule to a private copy of the root.
func isoMutate(v *JVal) *JVal {
	cp := func(x *JVal) *JVal { c := *x; return &c }
	set := func(o *JVal, k string, val *JVal) {
		for i, kk := range o.Keys {
			if kk == k {
				o.Vals = append([]*JVal{}, o.Vals...)
				o.Vals[i] = val
				return
			}
		}
		o.Keys = append(append([]string{}, o.Keys...), k)
		o.Vals = append(append([]*JVal{}, o.Vals...), val)
	}
	num := func(x *JVal) float64 {
		if x != nil && x.Kind == 'n' {
			return x.Num
		}
		return 0
	}
	switch v.Kind {
	case 'o':
		o := cp(v)
		set(o, "mark", &JVal{Kind: 's', Str: "m"})
		set(o, "n", &JVal{Kind: 'n', Num: num(v.Get("n")) + 100})
		if it := v.Get("items"); it != nil && it.Kind == 'a' && len(it.Arr) > 0 {
			a := cp(it)
			a.Arr = append([]*JVal{}, it.Arr...)
			a.Arr[0] = &JVal{Kind: 'n', Num: 99}
			set(o, "items", a)
		}
		if sub := v.Get("sub"); sub != nil && sub.Kind == 'o' {
			so := cp(sub)
			set(so, "n", &JVal{Kind: 'n', Num: num(sub.Get("n")) + 1000})
			set(so, "mark", &JVal{Kind: 's', Str: "s"})
			if it := sub.Get("items"); it != nil && it.Kind == 'a' && len(it.Arr) > 0 {
				a := cp(it)
				a.Arr = append([]*JVal{}, it.Arr...)
				a.Arr[0] = &JVal{Kind: 'n', Num: 55}
				set(so, "items", a)
			}
			set(o, "sub", so)
		}
		return o
	case 'a':
		if len(v.Arr) > 0 {
			a := cp(v)
			a.Arr = append([]*JVal{}, v.Arr...)
			a.Arr[0] = &JVal{Kind: 'n', Num: 77}
			return a
		}
	}
	return v
}

func runIsoCase(c *IsoCase, keep bool) Outcome {
	lang.VerifResetProcessState()
	log := newEventLog(keep)
	o := Outcome{Probes: map[string]int{}, Nontrivial: len(c.Selectors) >= 2}
	var want strings.Builder
	for _, d := range c.Docs {
		r := ScanStream([]byte(d))
		if r.Status != RefClean || len(r.Values) != 1 {
			o.Skipped = "document outside the model's domain"
			return o
		}
		for _, sel := range c.Selectors {
			root, ok := applySel(r.Values[0].V, sel)
			if !ok {
				o.Skipped = "selector outside the model's domain"
				return o
			}
			want.WriteString("bf " + isoDigest(root, false) + "\n")
			want.WriteString("after " + isoDigest(isoMutate(root), true) + "\n")
		}
	}
	var out bytes.Buffer
	kind, msg := "", ""
	func() {
		defer func() {
			if r := recover(); r != nil {
				kind, msg = "panic", fmt.Sprint(r)
			}
		}()
		_, err := lang.EvalProgram(isoProgram, []lang.InputFile{{Name: "docs.json", Reader: strings.NewReader(strings.Join(c.Docs, "\n"))}}, c.Selectors, &out, false)
		kind, msg = classifyErr(err)
	}()
	log.add('I', 0, "RUN selectors=%v kind=%s msg=%q stdout=%q", c.Selectors, kind, msg, truncate(out.String(), 600))
	o.LogHash, o.Log, o.Steps = log.Hash(), log.lines, log.seq
	o.Shape = "iso|" + strings.Join(c.Selectors, ",")
	if kind != "success" {
		o.Class, o.Msg = "wrong-outcome", fmt.Sprintf("expected success, observed %s: %s", kind, msg)
		return o
	}
	if out.String() != want.String() {
		o.Class = "selector-root-depends-on-earlier-selectors"
		o.Msg = fmt.Sprintf("with selectors %v: what a later selector selects reflects changes made while an earlier selector's root was current\n--- expected ---\n%s--- observed ---\n%s", c.Selectors, want.String(), out.String())
	}
	return o
}

var isoDocs = []string{
	`{"n": 3, "items": [1, 2, 3], "sub": {"n": 7, "items": [5, 6]}}`,
	`{"n": 1, "items": [], "sub": {"n": 2}}`,
	`{"n": 4, "items": [8]}`,
	`{"items": [2, 1], "sub": {"items": [9], "n": 0}}`,
	`{"n": 9, "items": [7, 7, 7, 7], "sub": {"n": 1, "items": [], "sub": {"n": 5, "items": [3]}}}`,
}
var isoSelectors = []string{"$", "$.items", "$.sub", "$.sub.items", "$.n", "$.sub.n", "$.sub.sub", "$.items[0]", "$.zz"}

func isoWorkload(count map[string]int) *Workload {
	return &Workload{
		Name:  "selector-isolation",
		Count: func(tier string) int { return count[tier] },
		Gen: func(i int, t *Tape, tier string) any {
			c := &IsoCase{}
			for k := 1 + t.Draw(3); k > 0; k-- {
				c.Docs = append(c.Docs, isoDocs[t.Draw(len(isoDocs))])
			}
			for k := 1 + t.Draw(4); k > 0; k-- {
				c.Selectors = append(c.Selectors, isoSelectors[t.Draw(len(isoSelectors))])
			}
			return c
		},
		Run: func(c any, keep bool) Outcome { return runIsoCase(c.(*IsoCase), keep) },
		New: func() any { return &IsoCase{} },
	}
}

var streamComponents = map[string][]string{
	"real":      {"jqawk lexer, parser, evaluator, prototypes, runtime (lang.EvalProgram)", "encoding/json Decoder", "Go runtime", "the jqawk binary (cli/cli.go, main.go) in the cli-* workloads", "kernel pipes, named pipes and regular files in the cli-* workloads"},
	"simulated": {"io.Reader of every input file (SimReader: chunking, zero reads, EOF placement, I/O error, truncation, corruption, stray text)", "stdout io.Writer (SimWriter with global event numbers; failing sink in C01)", "the writer end of the binary's input pipe (cli-pipe-schedule: chunk boundaries from the seed, next chunk only at observed quiescence)"},
	"stubbed":   {},
}

func registerStream() {
	register(&Property{
		ID:    "C02",
		Level: "exploration",
		Rule:  "seeded configurations (files x values x selectors x mixes of BEGIN/END/BEGINFILE/ENDFILE/pattern rules x root shapes x next/exit placements x pattern truth) run through lang.EvalProgram under benign read schedules; stdout compared byte for byte with an executable reference model of the awk schedule; (cli-schedule) the same through the real binary with one to three named inputs, each a regular file or a named pipe, or standard input behind a file / a file at an offset / a pipe. Distinct = distinct event-log shape (sequence of read classes relative to value boundaries and writes); non-trivial = at least one write and two events.",
		Assumptions: []string{
			"the reference schedule model (tracemodel.go) is written from the property statement and README",
			"trace programs only observe what the statement fixes: $ in ENDFILE, $index under non-array roots, next outside pattern rules and failing selectors are not generated",
			"objects with 2+ keys are never printed whole (key order belongs to C10/C17)",
			"jsonref (independent RFC 8259 scanner) supplies the values; it is cross-checked against encoding/json by the self-test",
		},
		Components: streamComponents,
		Workloads: []*Workload{
			streamWorkload("schedule", map[string]int{"quick": 400000, "thorough": 8000000}, streamGenOpts{mode: "c02", maxFiles: 3, maxVals: 6, selectors: true, benign: true, sigProb: 35}),
			longInputWorkload(map[string]int{"quick": 16, "thorough": 400}),
			isoWorkload(map[string]int{"quick": 20000, "thorough": 400000}),
			cliSchedWorkload(map[string]int{"quick": 1500, "thorough": 100000}),
			// every element delivered before a read error has had its rules run, in order, exactly once
			streamWorkload("rules-before-a-read-error", map[string]int{"quick": 40000, "thorough": 1500000}, streamGenOpts{mode: "c03", maxFiles: 2, maxVals: 5, selectors: true, faults: []string{"EIO"}, faultProb: 100, sigProb: 25}),
		},
	})
	allFaults := []string{"TRUNC", "EIO", "CORRUPT", "STRAY"}
	register(&Property{
		ID:    "C03",
		Level: "fault_enumeration",
		Rule:  "seeded JSON value streams, trace programs and read schedules; every truncation point and every I/O-error offset enumerated for each short stream (fault-sweep), sampled corruption/stray text/truncation/EIO on longer multi-file streams (faults), adversarial chunkings without faults (chunking); the real binary on files, named pipes and standard input (cli-streams), under strace for the order of its read and write calls (cli-incremental), and fed through a pipe chunk by chunk by the case's schedule with quiescence observed in /proc before each further chunk (cli-pipe-schedule). Monitor M1 (incremental output) evaluated inside every Read; outcome, error file name and stdout compared with jsonref + schedule model. Distinct = distinct event-log shape (read classes relative to value boundaries, zero reads, EOF/error events, writes); non-trivial = at least one write and two events.",
		Assumptions: []string{
			"jsonref decides which values are complete in a byte stream (RFC 8259 token grammar, greedy)",
			"an I/O error immediately after the last byte of a value (no following byte delivered) may or may not process that value; the error itself stays mandatory",
			"inputs whose only defect class is unspecified by the statement (number overflowing a double, invalid UTF-8 / lone surrogates in strings, duplicate keys) are counted and skipped",
			"at most one fault per run; fault-free and faulted workloads are separate",
		},
		Components: streamComponents,
		Workloads: []*Workload{
			streamWorkload("chunking", map[string]int{"quick": 60000, "thorough": 3000000}, streamGenOpts{mode: "c03", maxFiles: 3, maxVals: 6, selectors: true, sigProb: 20, bigProb: 4}),
			streamWorkload("faults", map[string]int{"quick": 90000, "thorough": 5000000}, streamGenOpts{mode: "c03", maxFiles: 3, maxVals: 5, selectors: true, faults: allFaults, faultProb: 100, sigProb: 15, bigProb: 3}),
			sweepWorkload(map[string]int{"quick": 150, "thorough": 6000}),
			hugeWorkload(map[string]int{"quick": 96, "thorough": 3000}),
			procStreamWorkload("cli-streams", map[string]int{"quick": 4000, "thorough": 300000}),
			cliIncrementalWorkload(map[string]int{"quick": 320, "thorough": 20000}),
			cliPipeWorkload(map[string]int{"quick": 480, "thorough": 30000}),
		},
	})
}

func registerAll() {
	registerStream()
	registerC01()
	registerProc()
	registerC10()
	registerC08()
	registerC09()
	registerC15()
}
