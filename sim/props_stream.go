package main

import (
	"fmt"
	"strings"
)

// Property registrations for the stream world: C02 and C03.

func streamWorkload(name string, count map[string]int, opts streamGenOpts) *Workload {
	return &Workload{
		Name:  name,
		Count: func(tier string) int { return count[tier] },
		Gen: func(i int, t *Tape, tier string) any {
			o := opts
			if tier == "thorough" {
				// deeper bounds: more files and more values per file
				o.maxFiles++
				o.maxVals += 4
			}
			if tier == "thorough" && o.bigProb > 0 {
				o.bigProb *= 2
				o.bigMax = 12000
			}
			return genStreamCase(t, o)
		},
		Run:      func(c any, keep bool) Outcome { return runStreamCase(c.(*StreamCase), keep) },
		New:      func() any { return &StreamCase{} },
		Simplify: simplifyStream,
	}
}

const sweepMaxLen = 96
const sweepSlots = (sweepMaxLen + 1) * 3 * 2

// sweepWorkload enumerates, for every seeded short stream, every truncation
// point and every I/O-error offset (with and without the preceding bytes in
// the same call), each under a one-byte schedule and a drawn schedule.
func sweepWorkload(count map[string]int) *Workload {
	return &Workload{
		Name:      "fault-sweep",
		Count:     func(tier string) int { return count[tier] * sweepSlots },
		SeedIndex: func(i int) int { return i / sweepSlots },
		Gen: func(i int, t *Tape, tier string) any {
			slot := t.Forced(i%sweepSlots, sweepSlots)
			var c *StreamCase
			// short streams only: redraw the size knobs until the stream fits
			o := streamGenOpts{mode: "c03", maxFiles: 2, maxVals: 3, selectors: true, sigProb: 15}
			c = genStreamCase(t, o)
			for k := range c.Files {
				c.Files[k].Sched = nil
			}
			if len(c.Files) == 0 {
				return c
			}
			fi := t.Draw(len(c.Files))
			data := c.Files[fi].Data
			off := slot / 6
			kind := (slot / 2) % 3
			sched := slot % 2
			if off > len(data) || len(data) > sweepMaxLen {
				// slot beyond this stream (or stream too long for the sweep): fault-free run
				return c
			}
			switch kind {
			case 0:
				c.Fault = &Fault{Kind: "TRUNC", File: fi, Off: off}
			case 1:
				c.Fault = &Fault{Kind: "EIO", File: fi, Off: off}
			default:
				c.Fault = &Fault{Kind: "EIO", File: fi, Off: off, WithData: true}
			}
			g := &streamGen{t: t}
			for k := range c.Files {
				vis, _ := c.Visible(k)
				if sched == 0 {
					s := make([]int, len(vis))
					for j := range s {
						s[j] = 1
					}
					c.Files[k].Sched = s
				} else {
					ref := ScanStream(vis)
					c.Files[k].Sched = g.schedule(len(vis), &ref)
				}
			}
			return c
		},
		Run:      func(c any, keep bool) Outcome { return runStreamCase(c.(*StreamCase), keep) },
		New:      func() any { return &StreamCase{} },
		Simplify: simplifyStream,
	}
}

// hugeWorkload: one value of one to three megabytes (an object whose "pad"
// member is a long string, so that the rules still run once for it) in front
// of, between or behind ordinary values; delivered at once, in large and in
// small chunks, with and without a fault behind it.
func hugeWorkload(count map[string]int) *Workload {
	return &Workload{
		Name:  "huge-values",
		Count: func(tier string) int { return count[tier] },
		Gen: func(i int, t *Tape, tier string) any {
			c := genStreamCase(t, streamGenOpts{mode: "c03", maxFiles: 1, maxVals: 4, selectors: false, sigProb: 10})
			if len(c.Files) == 0 {
				return c
			}
			size := 1100000 + t.Draw(3)*900000
			pad := strings.Repeat("x", size)
			huge := []byte(fmt.Sprintf("{\"id\": 424242, \"t\": true, \"pad\": \"%s\"}", pad))
			ref := ScanStream(c.Files[0].Data)
			pos := 0
			if n := len(ref.Values); n > 0 {
				k := t.Draw(n + 1)
				if k == n {
					pos = ref.Values[n-1].End
				} else {
					pos = ref.Values[k].Start
				}
			}
			d := c.Files[0].Data
			c.Files[0].Data = append(append(append(append(QBytes{}, d[:pos]...), huge...), '\n'), d[pos:]...)
			n := len(c.Files[0].Data)
			switch t.Weighted(3, 2, 2, 2) {
			case 0:
				c.Files[0].Sched = nil
			case 1: // large chunks that do not line up with the value
				var s []int
				for left := n; left > 0; {
					k := 60000 + t.Draw(70000)
					s = append(s, k)
					left -= k
				}
				c.Files[0].Sched = s
			case 2: // the huge value exactly, then the rest byte by byte
				c.Files[0].Sched = []int{pos + len(huge)}
				for k := 0; k < 64; k++ {
					c.Files[0].Sched = append(c.Files[0].Sched, 1)
				}
			default: // 4 KiB chunks
				var s []int
				for left := n; left > 0; left -= 4096 {
					s = append(s, 4096)
				}
				c.Files[0].Sched = s
			}
			if t.Chance(1, 3) {
				// a fault somewhere behind the huge value
				off := pos + len(huge) + t.Draw(n-pos-len(huge)+1)
				c.Fault = &Fault{Kind: []string{"TRUNC", "EIO"}[t.Draw(2)], File: 0, Off: off}
			}
			return c
		},
		Run:         func(c any, keep bool) Outcome { return runStreamCase(c.(*StreamCase), keep) },
		New:         func() any { return &StreamCase{} },
		NoRecheck:   true,
		ShrinkEvals: 80,
	}
}

// longInputWorkload: one array of 110-160 thousand elements through a trace
// program in which some pattern rule executes `next` (directly, under if, in a
// function, in a loop) for every element: whatever a completed rule, next or
// call leaves behind per element accumulates over a long input.
func longInputWorkload(count map[string]int) *Workload {
	return &Workload{
		Name:  "long-inputs",
		Count: func(tier string) int { return count[tier] },
		Gen: func(i int, t *Tape, tier string) any {
			c := genStreamCase(t, streamGenOpts{mode: "c02", maxFiles: 1, maxVals: 2, selectors: false, benign: true, sigProb: 0})
			if len(c.Files) == 0 {
				c.Files = []SimFile{{Name: "long.json"}}
			}
			n := 110000 + t.Draw(50000)
			var sb strings.Builder
			sb.WriteString("[")
			for k := 0; k < n; k++ {
				if k > 0 {
					sb.WriteString(",")
				}
				sb.WriteString(fmt.Sprint(k % 1000))
			}
			sb.WriteString("]\n")
			c.Files[0].Data = append(QBytes(sb.String()), c.Files[0].Data...)
			c.Files[0].Sched = nil
			// every pattern rule with a body gets an unconditional signal placement drawn anew
			via := []string{"", "if", "func", "func2", "forin", "while", "match", "forpost", "whilecond", "forinit"}[t.Draw(10)]
			hasPattern := false
			for k := range c.Prog.Rules {
				r := &c.Prog.Rules[k]
				if r.Kind == "PATTERN" && !r.NoBody {
					hasPattern = true
					r.Pat = nil
					r.Sig = &Sig{What: "next", Pos: []string{"before", "after"}[t.Draw(2)], Via: via}
				}
			}
			if !hasPattern {
				c.Prog.Rules = append([]TRule{{Kind: "PATTERN", Tag: "rL", Sig: &Sig{What: "next", Pos: "after", Via: via}}}, c.Prog.Rules...)
				hasFlag := false
				for _, r := range c.Prog.Rules {
					if r.SetFlag {
						hasFlag = true
					}
				}
				if !hasFlag {
					c.Prog.Rules = append(c.Prog.Rules, TRule{Kind: "BEGINFILE", Tag: "rF", SetFlag: true})
				}
			}
			fixNoBody(c.Prog)
			c.ProgText = c.Prog.Render()
			sanitizeSelectors(c)
			return c
		},
		Run:         func(c any, keep bool) Outcome { return runStreamCase(c.(*StreamCase), keep) },
		New:         func() any { return &StreamCase{} },
		NoRecheck:   true,
		ShrinkEvals: 40,
	}
}

var streamComponents = map[string][]string{
	"real":      {"jqawk lexer, parser, evaluator, prototypes, runtime (lang.EvalProgram)", "encoding/json Decoder", "Go runtime"},
	"simulated": {"io.Reader of every input file (SimReader: chunking, zero reads, EOF placement, I/O error, truncation, corruption, stray text)", "stdout io.Writer (SimWriter with global event numbers)"},
	"stubbed":   {},
}

func registerStream() {
	register(&Property{
		ID:    "C02",
		Level: "exploration",
		Rule:  "seeded configurations (files x values x selectors x mixes of BEGIN/END/BEGINFILE/ENDFILE/pattern rules x root shapes x next/exit placements x pattern truth) run through lang.EvalProgram under benign read schedules; stdout compared byte for byte with an executable reference model of the awk schedule. Distinct = distinct event-log shape (sequence of read classes relative to value boundaries and writes); non-trivial = at least one write and two events.",
		Assumptions: []string{
			"the reference schedule model (tracemodel.go) is written from the property statement and README",
			"trace programs only observe what the statement fixes: $ in ENDFILE, $index under non-array roots, next outside pattern rules and failing selectors are not generated",
			"objects with 2+ keys are never printed whole (key order belongs to C10/C17)",
			"jsonref (independent RFC 8259 scanner) supplies the values; it is cross-checked against encoding/json by the self-test",
		},
		Components: streamComponents,
		Workloads: []*Workload{
			streamWorkload("schedule", map[string]int{"quick": 400000, "thorough": 8000000}, streamGenOpts{mode: "c02", maxFiles: 3, maxVals: 6, selectors: true, benign: true, sigProb: 35}),
			longInputWorkload(map[string]int{"quick": 16, "thorough": 400}),
		},
	})
	allFaults := []string{"TRUNC", "EIO", "CORRUPT", "STRAY"}
	register(&Property{
		ID:    "C03",
		Level: "fault_enumeration",
		Rule:  "seeded JSON value streams, trace programs and read schedules; every truncation point and every I/O-error offset enumerated for each short stream (fault-sweep), sampled corruption/stray text/truncation/EIO on longer multi-file streams (faults), adversarial chunkings without faults (chunking). Monitor M1 (incremental output) evaluated inside every Read; outcome, error file name and stdout compared with jsonref + schedule model. Distinct = distinct event-log shape (read classes relative to value boundaries, zero reads, EOF/error events, writes); non-trivial = at least one write and two events.",
		Assumptions: []string{
			"jsonref decides which values are complete in a byte stream (RFC 8259 token grammar, greedy)",
			"an I/O error immediately after the last byte of a value (no following byte delivered) may or may not process that value; the error itself stays mandatory",
			"inputs whose only defect class is unspecified by the statement (number overflowing a double, invalid UTF-8 / lone surrogates in strings, duplicate keys) are counted and skipped",
			"at most one fault per run; fault-free and faulted workloads are separate",
		},
		Components: streamComponents,
		Workloads: []*Workload{
			streamWorkload("chunking", map[string]int{"quick": 60000, "thorough": 3000000}, streamGenOpts{mode: "c03", maxFiles: 3, maxVals: 6, selectors: true, sigProb: 20, bigProb: 4}),
			streamWorkload("faults", map[string]int{"quick": 90000, "thorough": 5000000}, streamGenOpts{mode: "c03", maxFiles: 3, maxVals: 5, selectors: true, faults: allFaults, faultProb: 100, sigProb: 15, bigProb: 3}),
			sweepWorkload(map[string]int{"quick": 150, "thorough": 6000}),
			hugeWorkload(map[string]int{"quick": 48, "thorough": 3000}),
			procStreamWorkload("cli-streams", map[string]int{"quick": 4000, "thorough": 300000}),
		},
	})
}

func registerAll() {
	registerStream()
	registerC01()
	registerProc()
	registerC10()
	registerC08()
	registerC09()
	registerC15()
}
