package main

// Value-history world for C09: seeded sequences of assignments and reads under
// aliasing, executed by one pattern rule over one input document, with the
// whole observable state (every variable and the document) printed after every
// operation and compared path by path with a reference heap: cells holding
// scalars by value and containers by reference.
//
// No fault or interleaving dimension exists for this property; the harness
// contributes seeded history search, per-step model conformance, minimisation
// and replay.

import (
	"bytes"
	"fmt"
	"sort"
	"strconv"
	"strings"

	lang "github.com/alligator/jqawk/src"
)

// ---------------------------------------------------------------- reference heap

type HV struct {
	K   byte // 'u' unset, 'z' null, 'n', 's', 'b', 'a', 'o'
	Num float64
	Str string
	B   bool
	Arr *HArr
	Obj *HObj
}

type HArr struct{ Items []*HCell }
type HObj struct{ M map[string]*HCell }
type HCell struct {
	V      HV
	absent bool // created on the way to an assignment target; may still become a container
}

func hNull() HV                { return HV{K: 'z'} }
func hNum(f float64) HV        { return HV{K: 'n', Num: f} }
func (v HV) isContainer() bool { return v.K == 'a' || v.K == 'o' }

type Heap struct {
	Vars  map[string]*HCell
	Names []string // variables + "$"
	// witnesses of known findings switch the corresponding generator exclusion off
	allowAliasedPad  bool
	allowMethodKeys  bool
	allowChainCreate bool
	allowUnsetCopy   bool
	allowPopSelf     bool
}

// chainIndependent: `T = (S = v)` is only generated when resolving T before or
// after the inner assignment addresses the same location (the statement does
// not fix that order): T has no negative index, and the existing cell S
// addresses is not one of the cells T passes through.
func (h *Heap) chainIndependent(t, s HPath) bool {
	for _, st := range t.Steps {
		if st.IsIdx && st.Idx < 0 {
			return false
		}
	}
	// the existing cell addressed by s (nil if missing)
	sc := h.cell(s.Base)
	for _, st := range s.Steps {
		if sc == nil {
			break
		}
		switch sc.V.K {
		case 'o':
			sc = sc.V.Obj.M[st.Key]
		case 'a':
			idx := st.Idx
			if idx < 0 {
				idx += len(sc.V.Arr.Items)
			}
			if idx < 0 || idx >= len(sc.V.Arr.Items) {
				sc = nil
			} else {
				sc = sc.V.Arr.Items[idx]
			}
		default:
			sc = nil
		}
	}
	if sc == nil {
		return true
	}
	tc := h.cell(t.Base)
	for i, st := range t.Steps {
		if tc == sc {
			return false // T passes through the cell the inner assignment overwrites
		}
		_ = i
		switch tc.V.K {
		case 'o':
			tc = tc.V.Obj.M[st.Key]
		case 'a':
			if st.Idx >= len(tc.V.Arr.Items) {
				return true
			}
			tc = tc.V.Arr.Items[st.Idx]
		default:
			return true
		}
		if tc == nil {
			return true
		}
	}
	return true
}

// createsIntermediate: does writing to p have to create a location on the way
// to the final one (a missing member or index before the last step)?
func (h *Heap) createsIntermediate(p HPath) bool {
	v := h.cell(p.Base).V
	for i, s := range p.Steps {
		if i == len(p.Steps)-1 {
			return false
		}
		switch v.K {
		case 'o':
			m, ok := v.Obj.M[s.Key]
			if !ok {
				return true
			}
			v = m.V
		case 'a':
			idx := s.Idx
			if idx < 0 {
				idx += len(v.Arr.Items)
			}
			if idx < 0 || idx >= len(v.Arr.Items) {
				return true
			}
			v = v.Arr.Items[idx].V
		default:
			// unset base (converted when the left side is evaluated) or anything else: the next location is missing
			return true
		}
	}
	return false
}

func (h *Heap) cell(name string) *HCell {
	c, ok := h.Vars[name]
	if !ok {
		c = &HCell{V: HV{K: 'u'}}
		h.Vars[name] = c
	}
	return c
}

// reachable containers from a value
func reach(v HV, seenA map[*HArr]bool, seenO map[*HObj]bool) {
	switch v.K {
	case 'a':
		if seenA[v.Arr] {
			return
		}
		seenA[v.Arr] = true
		for _, c := range v.Arr.Items {
			reach(c.V, seenA, seenO)
		}
	case 'o':
		if seenO[v.Obj] {
			return
		}
		seenO[v.Obj] = true
		for _, c := range v.Obj.M {
			reach(c.V, seenA, seenO)
		}
	}
}

// arrRefs counts the cells (variables, object slots, array slots) that hold arr.
func (h *Heap) arrRefs(arr *HArr) int {
	n := 0
	seenA, seenO := map[*HArr]bool{}, map[*HObj]bool{}
	var walk func(v HV)
	walk = func(v HV) {
		switch v.K {
		case 'a':
			if v.Arr == arr {
				n++
			}
			if seenA[v.Arr] {
				return
			}
			seenA[v.Arr] = true
			for _, c := range v.Arr.Items {
				walk(c.V)
			}
		case 'o':
			if seenO[v.Obj] {
				return
			}
			seenO[v.Obj] = true
			for _, c := range v.Obj.M {
				walk(c.V)
			}
		}
	}
	for _, name := range h.Names {
		walk(h.cell(name).V)
	}
	return n
}

func fromJVal(j *JVal) HV {
	switch j.Kind {
	case 'n':
		return hNum(j.Num)
	case 's':
		return HV{K: 's', Str: j.Str}
	case 'b':
		return HV{K: 'b', B: j.Bool}
	case 'z':
		return hNull()
	case 'a':
		a := &HArr{}
		for _, e := range j.Arr {
			a.Items = append(a.Items, &HCell{V: fromJVal(e)})
		}
		return HV{K: 'a', Arr: a}
	case 'o':
		o := &HObj{M: map[string]*HCell{}}
		for i, k := range j.Keys {
			o.M[k] = &HCell{V: fromJVal(j.Vals[i])}
		}
		return HV{K: 'o', Obj: o}
	}
	return hNull()
}

// canonical rendering of a heap value (sorted keys; cycles cannot occur by construction)
func (v HV) canon() string {
	switch v.K {
	case 'u':
		return "<unknown>"
	case 'z':
		return "null"
	case 'n':
		return fmtNum(v.Num)
	case 's':
		return strconv.Quote(v.Str)
	case 'b':
		if v.B {
			return "true"
		}
		return "false"
	case 'a':
		parts := make([]string, len(v.Arr.Items))
		for i, c := range v.Arr.Items {
			parts[i] = c.V.canon()
		}
		return "[" + strings.Join(parts, ",") + "]"
	case 'o':
		keys := make([]string, 0, len(v.Obj.M))
		for k := range v.Obj.M {
			keys = append(keys, k)
		}
		sort.Strings(keys)
		parts := make([]string, len(keys))
		for i, k := range keys {
			parts[i] = strconv.Quote(k) + ":" + v.Obj.M[k].V.canon()
		}
		return "{" + strings.Join(parts, ",") + "}"
	}
	return "?"
}

// ---------------------------------------------------------------- operations

type HStep struct {
	// KeyNum: a numeric index (possibly fractional or negative) applied to an
	// existing object: it addresses the key that is the number's string form
	// (Key holds that string; the step is written [KeyNum])
	KeyNum string `json:"key_num,omitempty"`
	Key    string `json:"key,omitempty"`
	Idx    int    `json:"idx,omitempty"`
	IsIdx  bool   `json:"is_idx,omitempty"`
}

type HPath struct {
	Base  string  `json:"base"`
	Steps []HStep `json:"steps,omitempty"`
}

func isIdentKey(k string) bool {
	if k == "" || (k[0] >= '0' && k[0] <= '9') {
		return false
	}
	for i := 0; i < len(k); i++ {
		c := k[i]
		if !(c == '_' || (c >= 'a' && c <= 'z') || (c >= 'A' && c <= 'Z') || (c >= '0' && c <= '9')) {
			return false
		}
	}
	return true
}

func (p HPath) String() string {
	var sb strings.Builder
	sb.WriteString(p.Base)
	for _, s := range p.Steps {
		if s.KeyNum != "" {
			sb.WriteString("[" + s.KeyNum + "]")
		} else if s.IsIdx {
			fmt.Fprintf(&sb, "[%d]", s.Idx)
		} else if isIdentKey(s.Key) {
			sb.WriteString("." + s.Key)
		} else {
			// not spellable as .key: computed member with the key as a string
			sb.WriteString("[" + strconv.Quote(s.Key) + "]")
		}
	}
	return sb.String()
}

type HOp struct {
	Kind string   `json:"kind"` // assign-lit | assign-path | opassign | incdec | read | call | forin-set | forin-rebind | insert-scalar
	T    HPath    `json:"t"`
	Lit  string   `json:"lit,omitempty"`  // JSON text of a literal (assign-lit, call argument)
	Src  *HPath   `json:"src,omitempty"`  // assign-path
	Op   string   `json:"op,omitempty"`   // opassign: + - * ; incdec: pre++ post++ pre-- post--
	Num  float64  `json:"num,omitempty"`  // opassign operand
	Fn   string   `json:"fn,omitempty"`   // call: setk | seti | repl | incp
	Key  string   `json:"key,omitempty"`  // call setk / forin-set key
	Keys []string `json:"keys,omitempty"` // pluck
	Idx  int      `json:"idx,omitempty"`  // call seti index
}

// literal JSON text -> jqawk literal text (JSON syntax is valid jqawk syntax for our literals)
func litText(s string) string { return s }

const heapFuncs = `function getm(o) { return o.zq_never_there }
function setkm(x, k, v) { match (1) { one => { x[k] = v } }
 return 0 }
function probe(o) { pc = 0
 for (pi = 0; pi < 70; pi++) { if (o["zz" + pi] == null) { pc++ } }
 return pc }
function setk(o, k, v) { o[k] = v
 return 0 }
function seti(a, i, v) { a[i] = v
 return 0 }
function repl(o) { o = [777]
 o[1] = 888
 return o }
function incp(n) { n++
 n += 10
 return n }
function pair(pa, pb) { return [pa, pb] }
function scratch(sa, x, y, z) { x = [sa]
 y = 5
 z++
 return [x, y, z] }
`

// Render the statement(s) for an op. Reads print "R" lines themselves.
func (op *HOp) render() string {
	switch op.Kind {
	case "assign-lit":
		return op.T.String() + " = " + litText(op.Lit)
	case "assign-path":
		return op.T.String() + " = " + op.Src.String()
	case "opassign":
		return op.T.String() + " " + op.Op + "= " + fmtNum(op.Num)
	case "incdec":
		switch op.Op {
		case "pre++":
			return "print \"R\", [++" + op.T.String() + "]"
		case "post++":
			return "print \"R\", [" + op.T.String() + "++]"
		case "pre--":
			return "print \"R\", [--" + op.T.String() + "]"
		default:
			return "print \"R\", [" + op.T.String() + "--]"
		}
	case "read":
		return "print \"R\", [" + op.T.String() + "]"
	case "call":
		switch op.Fn {
		case "setk":
			return fmt.Sprintf("print \"R\", [setk(%s, %q, %s)]", op.T.String(), op.Key, litText(op.Lit))
		case "setkm":
			// the same through a parameter named like a global, used inside a case body
			return fmt.Sprintf("print \"R\", [setkm(%s, %q, %s)]", op.T.String(), op.Key, litText(op.Lit))
		case "seti":
			return fmt.Sprintf("print \"R\", [seti(%s, %d, %s)]", op.T.String(), op.Idx, litText(op.Lit))
		case "repl":
			return fmt.Sprintf("print \"R\", [repl(%s)]", op.T.String())
		default:
			return fmt.Sprintf("print \"R\", [incp(%s)]", op.T.String())
		}
	case "assign-probe":
		// the right-hand side reads seventy missing members of another object
		// before the (possibly missing) target is assigned
		return op.T.String() + " = probe(" + op.Src.String() + ")"
	case "incdec-refused":
		// ++ / -- on a location that cannot exist (a member of null or of a
		// number, an index before the start of an array that is not there): the
		// plain assignment to it is a runtime error, and so is this
		if strings.HasPrefix(op.Op, "pre") {
			// (a statement cannot start with ++: the line before would swallow it)
			return "tmpv = " + op.Op[3:] + op.T.String()
		}
		return op.T.String() + op.Op[4:]
	case "match-assign":
		// a name bound by an array pattern is assigned inside the case body: the
		// name is a variable of the case, not the matched element
		names2 := make([]string, op.Idx)
		for i := range names2 {
			names2[i] = fmt.Sprintf("mc%d", i)
		}
		tgt := names2[int(op.Num)%len(names2)]
		stmt := tgt + " = " + litText(op.Lit)
		if op.Op == "++" {
			stmt = tgt + "++"
		}
		return fmt.Sprintf("match (%s) { [%s] => { %s } }", op.T.String(), strings.Join(names2, ", "), stmt)
	case "match-early":
		// an array-pattern case whose body is left with continue / break; then a
		// variable named like one of the bound names is assigned
		names := make([]string, op.Idx)
		for i := range names {
			names[i] = fmt.Sprintf("mb%d", i)
		}
		if op.Key != "" {
			// the last bound name is spelled like a variable of the history: the
			// variable is shadowed inside the case only and is what it was afterwards
			names[len(names)-1] = op.Key
			return fmt.Sprintf("for (ml in [1, 2]) { match (%s) { [%s] => { %s } } }", op.T.String(), strings.Join(names, ", "), op.Fn)
		}
		return fmt.Sprintf("for (ml in [1, 2]) { match (%s) { [%s] => { %s } } }\n%s = \"later\"", op.T.String(), strings.Join(names, ", "), op.Fn, names[len(names)-1])
	case "ret-member-assign":
		// assignment to a member of a missing member that a function handed back:
		// the value returned is null, not a way into the caller's container
		return fmt.Sprintf("getm(%s).%s = %s", op.T.String(), op.Key, litText(op.Lit))
	case "pop-into-self":
		// the element an assignment addresses is removed by its own right-hand side
		return fmt.Sprintf("%s[%d] = %s.pop()", op.T.String(), op.Idx, op.T.String())
	case "method":
		// a length-changing array method through a path
		if op.Fn == "push" {
			return fmt.Sprintf("print \"R\", [%s.push(%s)]", op.T.String(), litText(op.Lit))
		}
		return fmt.Sprintf("print \"R\", [%s.%s()]", op.T.String(), op.Fn)
	case "forin-set":
		return fmt.Sprintf("for (fe in %s) { if (fe is object) { fe.%s = %s } }", op.T.String(), op.Key, litText(op.Lit))
	case "forin-rebind":
		return fmt.Sprintf("for (fe in %s) { fe = %s }", op.T.String(), litText(op.Lit))
	case "chain-assign":
		// T = (S = lit): the right-hand side is itself an assignment
		return op.T.String() + " = (" + op.Src.String() + " = " + litText(op.Lit) + ")"
	case "self-chain":
		// T = (a modification of T itself): the right-hand side reads, changes
		// and (when its last step is missing) creates the very location being assigned
		switch op.Op {
		case "pre++":
			return op.T.String() + " = (++" + op.T.String() + ")"
		case "pre--":
			return op.T.String() + " = (--" + op.T.String() + ")"
		case "post++":
			return op.T.String() + " = (" + op.T.String() + "++)"
		case "post--":
			return op.T.String() + " = (" + op.T.String() + "--)"
		}
		if strings.HasSuffix(op.Op, "&") {
			// ... and reads it once more after having changed it
			return op.T.String() + " = ((" + op.T.String() + " " + strings.TrimSuffix(op.Op, "&") + "= " + fmtNum(op.Num) + ") + " + op.T.String() + ")"
		}
		return op.T.String() + " = (" + op.T.String() + " " + op.Op + "= " + fmtNum(op.Num) + ")"
	case "lit-alias":
		// a list whose later entry assigns the variable an earlier entry reads: scalars are copied when inserted
		return fmt.Sprintf("%s = [%s, %s = %s, %s]", op.T.String(), op.Src.String(), op.Src.String(), litText(op.Lit), op.Src.String())
	case "arg-alias":
		return fmt.Sprintf("print \"R\", [pair(%s, %s += 1)]", op.Src.String(), op.Src.String())
	case "opassign-incidx":
		// `a op= b` means `a = a op b`: a target with a side effect is evaluated twice
		return fmt.Sprintf("%s[%s++] %s= %s", op.T.String(), op.Src.String(), op.Op, fmtNum(op.Num))
	case "scratch-call":
		// fewer arguments than parameters; the omitted parameters are named like the caller's variables x, y, z
		return fmt.Sprintf("print \"R\", [scratch(%s)]", litText(op.Lit))
	case "pluck":
		keys := make([]string, len(op.Keys))
		for i, k := range op.Keys {
			keys[i] = strconv.Quote(k)
		}
		return op.T.String() + " = " + op.Src.String() + ".pluck(" + strings.Join(keys, ", ") + ")"
	case "forin-incr":
		return fmt.Sprintf("for (fe in %s) { fe%s }", op.T.String(), op.Op)
	case "forin-kv-incr":
		return fmt.Sprintf("for (fk, fe in %s) { fe%s }", op.T.String(), op.Op)
	case "insert-scalar":
		// x = scalar; arr-literal/object holding x; then x changes: the container keeps the old scalar
		return fmt.Sprintf("%s = [%s, {held: %s}]\n%s = \"changed\"", op.T.String(), op.Src.String(), op.Src.String(), op.Src.String())
	}
	return "print \"?\""
}

type errUnsupported struct{ why string }

func (e errUnsupported) Error() string { return e.why }

var heapMethodNames = map[string]bool{"length": true, "push": true, "pop": true, "popfirst": true, "contains": true, "sort": true, "pluck": true, "split": true, "lower": true, "upper": true, "floor": true, "ceil": true, "round": true}

// readPath evaluates a path without mutating anything. Missing members and
// indices past the end read as null.
func (h *Heap) readPath(p HPath) (HV, error) {
	c := h.cell(p.Base)
	v := c.V
	for i, s := range p.Steps {
		switch v.K {
		case 'o':
			if s.IsIdx {
				return HV{}, errUnsupported{"numeric index on an object"}
			}
			if m, ok := v.Obj.M[s.Key]; ok {
				v = m.V
			} else {
				v = hNull()
			}
		case 'a':
			if !s.IsIdx {
				return HV{}, errUnsupported{"member of an array"}
			}
			n := len(v.Arr.Items)
			idx := s.Idx
			if idx < 0 {
				idx += n
				if idx < 0 {
					return HV{}, errUnsupported{"index before the start"}
				}
			}
			if idx >= n {
				v = hNull()
			} else {
				v = v.Arr.Items[idx].V
			}
		case 'z':
			// optional chaining through a missing / null member
			v = hNull()
		case 'u':
			if h.allowUnsetCopy {
				v = hNull()
				continue
			}
			return HV{}, errUnsupported{"read through an unset variable"}
		default:
			_ = i
			return HV{}, errUnsupported{"member of a scalar"}
		}
	}
	return v, nil
}

// resolveForWrite walks to the addressed location, creating missing
// intermediates (objects for keys, arrays for indices) and padding arrays.
func (h *Heap) resolveForWrite(p HPath) (*HCell, error) {
	c := h.cell(p.Base)
	// validate first (no partial effects on unsupported paths): simulate on the fly with undo not needed
	// because every unsupported case is detected before the first mutation of an existing container
	type padding struct {
		arr *HArr
		n   int
	}
	cur := c
	var created []func()
	for _, s := range p.Steps {
		v := cur.V
		if v.K == 'u' || (v.K == 'z' && cur.absent) {
			// becomes a container of the kind the step needs
			if s.KeyNum != "" {
				return nil, errUnsupported{"numeric key on a missing location"}
			}
			if s.IsIdx {
				cur.V = HV{K: 'a', Arr: &HArr{}}
			} else {
				cur.V = HV{K: 'o', Obj: &HObj{M: map[string]*HCell{}}}
			}
			cur.absent = false
			v = cur.V
		}
		switch v.K {
		case 'o':
			if s.IsIdx {
				return nil, errUnsupported{"numeric index on an object"}
			}
			if heapMethodNames[s.Key] && !h.allowMethodKeys {
				return nil, errUnsupported{"method-named key (known finding K3)"}
			}
			m, ok := v.Obj.M[s.Key]
			if !ok {
				m = &HCell{V: hNull(), absent: true}
				v.Obj.M[s.Key] = m
			}
			cur = m
		case 'a':
			if !s.IsIdx {
				return nil, errUnsupported{"member of an array"}
			}
			n := len(v.Arr.Items)
			idx := s.Idx
			if idx < 0 {
				idx += n
				if idx < 0 {
					return nil, errUnsupported{"index before the start"}
				}
			}
			if idx >= n {
				if h.arrRefs(v.Arr) > 1 && !h.allowAliasedPad {
					return nil, errUnsupported{"length change on an array reachable through two or more cells (known finding K1)"}
				}
				for k := n; k <= idx; k++ {
					v.Arr.Items = append(v.Arr.Items, &HCell{V: hNull(), absent: k == idx})
				}
			}
			cur = v.Arr.Items[idx]
		case 'z':
			return nil, errUnsupported{"write through an explicit null"}
		default:
			return nil, errUnsupported{"write through a scalar"}
		}
	}
	_ = created
	return cur, nil
}

// prevalidate checks that a write path is supported without mutating the heap.
func (h *Heap) prevalidateWrite(p HPath) error {
	c := h.cell(p.Base)
	v := c.V
	fresh := v.K == 'u'
	for _, s := range p.Steps {
		if fresh {
			// everything below a fresh container is fresh: only the kind sequence matters
			if s.KeyNum != "" {
				return errUnsupported{"numeric key on a missing location"}
			}
			if s.IsIdx && s.Idx < 0 {
				return errUnsupported{"negative index into a fresh array"}
			}
			if !s.IsIdx && (heapMethodNames[s.Key] && !h.allowMethodKeys) {
				return errUnsupported{"method-named key (known finding K3)"}
			}
			continue
		}
		switch v.K {
		case 'o':
			if s.IsIdx {
				return errUnsupported{"numeric index on an object"}
			}
			if heapMethodNames[s.Key] && !h.allowMethodKeys {
				return errUnsupported{"method-named key (known finding K3)"}
			}
			m, ok := v.Obj.M[s.Key]
			if !ok {
				fresh = true
			} else {
				v = m.V
			}
		case 'a':
			if !s.IsIdx {
				return errUnsupported{"member of an array"}
			}
			n := len(v.Arr.Items)
			idx := s.Idx
			if idx < 0 {
				idx += n
				if idx < 0 {
					return errUnsupported{"index before the start"}
				}
			}
			if idx >= n {
				if h.arrRefs(v.Arr) > 1 && !h.allowAliasedPad {
					return errUnsupported{"length change on an array reachable through two or more cells (known finding K1)"}
				}
				if idx > 40 {
					return errUnsupported{"large padding"}
				}
				fresh = true
			} else {
				v = v.Arr.Items[idx].V
			}
		case 'z':
			return errUnsupported{"write through an explicit null"}
		default:
			return errUnsupported{"write through a scalar"}
		}
	}
	return nil
}

// wouldCycle: storing val somewhere below path p's base creates a cycle if any
// container on the way to the target is reachable from val.
func (h *Heap) wouldCycle(p HPath, val HV) bool {
	if !val.isContainer() {
		return false
	}
	seenA, seenO := map[*HArr]bool{}, map[*HObj]bool{}
	reach(val, seenA, seenO)
	v := h.cell(p.Base).V
	for _, s := range p.Steps {
		switch v.K {
		case 'a':
			if seenA[v.Arr] {
				return true
			}
			idx := s.Idx
			if idx < 0 {
				idx += len(v.Arr.Items)
			}
			if !s.IsIdx || idx < 0 || idx >= len(v.Arr.Items) {
				return false
			}
			v = v.Arr.Items[idx].V
		case 'o':
			if seenO[v.Obj] {
				return true
			}
			m, ok := v.Obj.M[s.Key]
			if s.IsIdx || !ok {
				return false
			}
			v = m.V
		default:
			return false
		}
	}
	return false
}

func copyHV(v HV) HV { return v } // scalars by value, containers by pointer: Go assignment does exactly that

func asNum(v HV) (float64, bool) {
	switch v.K {
	case 'n':
		return v.Num, true
	case 'z', 'u':
		return 0, true
	}
	return 0, false
}

// apply executes an op on the heap; returns the expected "R" line payload ("" if none).
func (h *Heap) apply(op *HOp) (string, error) {
	switch op.Kind {
	case "assign-lit":
		r := ScanStream([]byte(op.Lit))
		if r.Status != RefClean || len(r.Values) != 1 {
			return "", errUnsupported{"bad literal"}
		}
		if err := h.prevalidateWrite(op.T); err != nil {
			return "", err
		}
		c, err := h.resolveForWrite(op.T)
		if err != nil {
			return "", err
		}
		c.V, c.absent = fromJVal(r.Values[0].V), false
		return "", nil
	case "assign-path":
		val, err := h.readPath(*op.Src)
		if err != nil {
			return "", err
		}
		if val.K == 'u' && !h.allowUnsetCopy {
			return "", errUnsupported{"copy of an unset variable"}
		}
		if err := h.prevalidateWrite(op.T); err != nil {
			return "", err
		}
		if h.wouldCycle(op.T, val) {
			return "", errUnsupported{"would create a cycle"}
		}
		// a container about to gain a second reference must not be padded later: handled by arrRefs at that time
		c, err := h.resolveForWrite(op.T)
		if err != nil {
			return "", err
		}
		c.V, c.absent = copyHV(val), false
		return "", nil
	case "opassign":
		cur, err := h.readPath(op.T)
		if err != nil {
			return "", err
		}
		n, ok := asNum(cur)
		if !ok {
			return "", errUnsupported{"op= on a non-number"}
		}
		if err := h.prevalidateWrite(op.T); err != nil {
			return "", err
		}
		var res float64
		switch op.Op {
		case "+":
			res = n + op.Num
		case "-":
			res = n - op.Num
		case "*":
			res = n * op.Num
		default:
			return "", errUnsupported{"operator"}
		}
		c, err := h.resolveForWrite(op.T)
		if err != nil {
			return "", err
		}
		c.V, c.absent = hNum(res), false
		return "", nil
	case "incdec":
		cur, err := h.readPath(op.T)
		if err != nil {
			return "", err
		}
		n, ok := asNum(cur)
		if !ok {
			return "", errUnsupported{"++/-- on a non-number"}
		}
		if len(op.T.Steps) == 0 && h.cell(op.T.Base).V.K == 'u' && false {
			return "", nil
		}
		if err := h.prevalidateWrite(op.T); err != nil {
			return "", err
		}
		nv := n + 1
		if strings.HasSuffix(op.Op, "--") {
			nv = n - 1
		}
		c, err := h.resolveForWrite(op.T)
		if err != nil {
			return "", err
		}
		c.V, c.absent = hNum(nv), false
		if strings.HasPrefix(op.Op, "post") {
			return "[" + fmtNum(n) + "]", nil
		}
		return "[" + fmtNum(nv) + "]", nil
	case "read":
		v, err := h.readPath(op.T)
		if err != nil {
			return "", err
		}
		if v.K == 'u' && !h.allowUnsetCopy {
			return "", errUnsupported{"read of an unset variable"}
		}
		return "[" + v.canon() + "]", nil
	case "call":
		v, err := h.readPath(op.T)
		if err != nil {
			return "", err
		}
		r := ScanStream([]byte(op.Lit))
		var lit HV
		if op.Fn == "setk" || op.Fn == "seti" || op.Fn == "setkm" {
			if r.Status != RefClean || len(r.Values) != 1 {
				return "", errUnsupported{"bad literal"}
			}
			lit = fromJVal(r.Values[0].V)
		}
		switch op.Fn {
		case "setk", "setkm":
			if v.K != 'o' || heapMethodNames[op.Key] {
				return "", errUnsupported{"setk needs an object"}
			}
			if m, ok := v.Obj.M[op.Key]; ok {
				m.V = lit
			} else {
				v.Obj.M[op.Key] = &HCell{V: lit}
			}
			return "[0]", nil
		case "seti":
			// through a parameter only in-range writes (the call itself is a second reference: K1)
			if v.K != 'a' {
				return "", errUnsupported{"seti needs an array"}
			}
			idx := op.Idx
			if idx < 0 {
				idx += len(v.Arr.Items)
			}
			if idx < 0 || idx >= len(v.Arr.Items) {
				return "", errUnsupported{"seti out of range"}
			}
			v.Arr.Items[idx].V = lit
			return "[0]", nil
		case "repl":
			if v.K == 'u' {
				return "", errUnsupported{"unset argument"}
			}
			return "[[777,888]]", nil
		default:
			n, ok := asNum(v)
			if !ok || v.K == 'u' {
				return "", errUnsupported{"incp needs a number"}
			}
			return "[" + fmtNum(n+11) + "]", nil
		}
	case "incdec-refused":
		if err := h.refusedOK(op); err != nil {
			return "", err
		}
		return "", nil
	case "assign-probe":
		if err := h.probeOK(op); err != nil {
			return "", err
		}
		c, err := h.resolveForWrite(op.T)
		if err != nil {
			return "", err
		}
		c.V, c.absent = hNum(70), false
		return "", nil
	case "match-assign":
		v, err := h.readPath(op.T)
		if err != nil {
			return "", err
		}
		if v.K != 'a' || len(v.Arr.Items) != op.Idx || op.Idx == 0 {
			return "", errUnsupported{"needs an array of exactly that many elements"}
		}
		if el := v.Arr.Items[int(op.Num)%op.Idx].V; el.isContainer() || (op.Op == "++" && el.K != 'n' && el.K != 'z') {
			return "", errUnsupported{"the element bound to the assigned name must be a scalar (containers are shared)"}
		}
		return "", nil
	case "match-early":
		// nothing the heap holds changes: the bound names end with their case
		v, err := h.readPath(op.T)
		if err != nil {
			return "", err
		}
		if v.K != 'a' || len(v.Arr.Items) != op.Idx || op.Idx == 0 || (op.Fn != "continue" && op.Fn != "break") {
			return "", errUnsupported{"needs an array of exactly that many elements"}
		}
		return "", nil
	case "ret-member-assign":
		// nothing the heap holds changes (the run may also refuse the assignment with a runtime error)
		v, err := h.readPath(op.T)
		if err != nil {
			return "", err
		}
		if v.K != 'o' {
			return "", errUnsupported{"needs an object"}
		}
		return "", nil
	case "pop-into-self":
		// pop, then the index just vacated is assigned the popped value: the array is what it was
		if !h.allowPopSelf {
			return "", errUnsupported{"assignment to the element its right-hand side pops (known finding K12)"}
		}
		probe := HOp{Kind: "method", T: op.T, Fn: "pop"}
		if err := h.methodOK(&probe); err != nil {
			return "", err
		}
		v, _ := h.readPath(op.T)
		if op.Idx != len(v.Arr.Items)-1 || v.Arr.Items[op.Idx].V.isContainer() {
			return "", errUnsupported{"index is not the last element"}
		}
		return "", nil
	case "method":
		if err := h.methodOK(op); err != nil {
			return "", err
		}
		v, _ := h.readPath(op.T)
		items := v.Arr.Items
		switch op.Fn {
		case "pop":
			if len(items) == 0 {
				return "[null]", nil
			}
			last := items[len(items)-1].V
			v.Arr.Items = items[: len(items)-1 : len(items)-1]
			return "[" + last.canon() + "]", nil
		case "popfirst":
			if len(items) == 0 {
				return "[null]", nil
			}
			first := items[0].V
			v.Arr.Items = append([]*HCell{}, items[1:]...)
			return "[" + first.canon() + "]", nil
		default:
			r := ScanStream([]byte(op.Lit))
			v.Arr.Items = append(items[:len(items):len(items)], &HCell{V: fromJVal(r.Values[0].V)})
			return "[" + v.canon() + "]", nil
		}
	case "forin-set":
		v, err := h.readPath(op.T)
		if err != nil {
			return "", err
		}
		if v.K != 'a' || heapMethodNames[op.Key] {
			return "", errUnsupported{"forin needs an array"}
		}
		r := ScanStream([]byte(op.Lit))
		if r.Status != RefClean || len(r.Values) != 1 {
			return "", errUnsupported{"bad literal"}
		}
		lit := fromJVal(r.Values[0].V)
		if lit.isContainer() {
			return "", errUnsupported{"container literal would be shared between elements"}
		}
		for _, c := range v.Arr.Items {
			if c.V.K == 'o' {
				if m, ok := c.V.Obj.M[op.Key]; ok {
					m.V = lit
				} else {
					c.V.Obj.M[op.Key] = &HCell{V: lit}
				}
			}
			// the loop variable holds the element (scalars by value, containers shared)
			h.cell("fe").V = c.V
		}
		return "", nil
	case "forin-rebind":
		v, err := h.readPath(op.T)
		if err != nil {
			return "", err
		}
		if v.K != 'a' {
			return "", errUnsupported{"forin needs an array"}
		}
		// the loop variable fe ends up holding the literal; the array is untouched
		if len(v.Arr.Items) > 0 {
			r := ScanStream([]byte(op.Lit))
			if r.Status != RefClean || len(r.Values) != 1 {
				return "", errUnsupported{"bad literal"}
			}
			h.cell("fe").V = fromJVal(r.Values[0].V)
		}
		return "", nil
	case "chain-assign":
		r := ScanStream([]byte(op.Lit))
		if r.Status != RefClean || len(r.Values) != 1 {
			return "", errUnsupported{"bad literal"}
		}
		lit := fromJVal(r.Values[0].V)
		if lit.isContainer() {
			return "", errUnsupported{"container literal (would be shared)"}
		}
		if err := h.prevalidateWrite(*op.Src); err != nil {
			return "", err
		}
		if err := h.prevalidateWrite(op.T); err != nil {
			return "", err
		}
		if h.createsIntermediate(op.T) && !h.allowChainCreate {
			return "", errUnsupported{"outer target needs a missing intermediate that the inner assignment may create first (known finding K8)"}
		}
		if !h.chainIndependent(op.T, *op.Src) {
			return "", errUnsupported{"the order of resolving the outer target and running the inner assignment would matter"}
		}
		// the inner assignment happens first, then the outer one
		c1, err := h.resolveForWrite(*op.Src)
		if err != nil {
			return "", err
		}
		c1.V, c1.absent = lit, false
		if err := h.prevalidateWrite(op.T); err != nil {
			return "", errUnsupported{"outer target invalid after the inner assignment"}
		}
		c2, err := h.resolveForWrite(op.T)
		if err != nil {
			return "", err
		}
		c2.V, c2.absent = lit, false
		return "", nil
	case "self-chain":
		if err := h.selfChainOK(op); err != nil {
			return "", err
		}
		cur, _ := h.readPath(op.T)
		n, _ := asNum(cur)
		var res float64
		switch op.Op {
		case "pre++":
			res = n + 1
		case "pre--":
			res = n - 1
		case "post++", "post--":
			res = n // the outer assignment stores the old value over the changed one
		case "+":
			res = n + op.Num
		case "-":
			res = n - op.Num
		case "+&":
			res = 2 * (n + op.Num)
		case "-&":
			res = 2 * (n - op.Num)
		default:
			res = n * op.Num
		}
		c, err := h.resolveForWrite(op.T)
		if err != nil {
			return "", err
		}
		c.V, c.absent = hNum(res), false
		return "", nil
	case "lit-alias":
		src, err := h.readPath(*op.Src)
		if err != nil {
			return "", err
		}
		r := ScanStream([]byte(op.Lit))
		if r.Status != RefClean || len(r.Values) != 1 {
			return "", errUnsupported{"bad literal"}
		}
		lit := fromJVal(r.Values[0].V)
		if len(op.Src.Steps) != 0 || len(op.T.Steps) != 0 || src.isContainer() || src.K == 'u' || lit.isContainer() || op.Src.Base == op.T.Base || op.Src.Base == "$" {
			return "", errUnsupported{"lit-alias needs two distinct variables and scalars"}
		}
		h.cell(op.T.Base).V = HV{K: 'a', Arr: &HArr{Items: []*HCell{{V: src}, {V: lit}, {V: lit}}}}
		h.cell(op.Src.Base).V = lit
		return "", nil
	case "arg-alias":
		src, err := h.readPath(*op.Src)
		if err != nil {
			return "", err
		}
		if len(op.Src.Steps) != 0 || src.K != 'n' || op.Src.Base == "$" {
			return "", errUnsupported{"arg-alias needs a numeric variable"}
		}
		h.cell(op.Src.Base).V = hNum(src.Num + 1)
		return "[[" + fmtNum(src.Num) + "," + fmtNum(src.Num+1) + "]]", nil
	case "opassign-incidx":
		arrv, err := h.readPath(op.T)
		if err != nil {
			return "", err
		}
		ctr, err := h.readPath(*op.Src)
		if err != nil {
			return "", err
		}
		if arrv.K != 'a' || ctr.K != 'n' || len(op.Src.Steps) != 0 || op.Src.Base == "$" || op.Src.Base == op.T.Base {
			return "", errUnsupported{"needs an array and a separate numeric counter variable"}
		}
		i := int(ctr.Num)
		if float64(i) != ctr.Num || i < 0 || i+1 >= len(arrv.Arr.Items) {
			return "", errUnsupported{"counter out of range"}
		}
		next := arrv.Arr.Items[i+1].V
		if next.K != 'n' {
			return "", errUnsupported{"needs numbers"}
		}
		var res float64
		switch op.Op {
		case "+":
			res = next.Num + op.Num
		case "-":
			res = next.Num - op.Num
		case "*":
			res = next.Num * op.Num
		default:
			return "", errUnsupported{"operator"}
		}
		// T[i++] op= k  ==  T[i++] = T[i++] op k : the target is slot i, the operand slot i+1, the counter moves twice
		arrv.Arr.Items[i].V = hNum(res)
		h.cell(op.Src.Base).V = hNum(float64(i + 2))
		return "", nil
	case "scratch-call":
		r := ScanStream([]byte(op.Lit))
		if r.Status != RefClean || len(r.Values) != 1 {
			return "", errUnsupported{"bad literal"}
		}
		lit := fromJVal(r.Values[0].V)
		// the caller's x, y, z are untouched; the callee's omitted parameters start as null
		return "[[[" + lit.canon() + "],5,1]]", nil
	case "pluck":
		src, err := h.readPath(*op.Src)
		if err != nil {
			return "", err
		}
		if src.K != 'o' {
			return "", errUnsupported{"pluck needs an object"}
		}
		if err := h.dryRun(op); err != nil {
			return "", err
		}
		no := &HObj{M: map[string]*HCell{}}
		for _, k := range op.Keys {
			if heapMethodNames[k] {
				return "", errUnsupported{"method-named key"}
			}
			if m, ok := src.Obj.M[k]; ok {
				no.M[k] = &HCell{V: m.V} // a new cell: scalars copied, containers shared
			} else {
				no.M[k] = &HCell{V: hNull()}
			}
		}
		c, err := h.resolveForWrite(op.T)
		if err != nil {
			return "", err
		}
		c.V, c.absent = HV{K: 'o', Obj: no}, false
		return "", nil
	case "forin-incr", "forin-kv-incr":
		v, err := h.readPath(op.T)
		if err != nil {
			return "", err
		}
		delta := 1.0
		if op.Op == "--" {
			delta = -1
		}
		var last *HV
		if op.Kind == "forin-incr" {
			if v.K != 'a' {
				return "", errUnsupported{"forin needs an array"}
			}
			for _, c := range v.Arr.Items {
				if c.V.K != 'n' {
					return "", errUnsupported{"forin-incr needs numbers"}
				}
			}
			if n := len(v.Arr.Items); n > 0 {
				last = &v.Arr.Items[n-1].V
			}
		} else {
			if v.K != 'o' {
				return "", errUnsupported{"forin-kv needs an object"}
			}
			keys := make([]string, 0, len(v.Obj.M))
			for k, c := range v.Obj.M {
				if c.V.K != 'n' {
					return "", errUnsupported{"forin-kv-incr needs numbers"}
				}
				keys = append(keys, k)
			}
			sort.Strings(keys)
			if len(keys) > 0 {
				last = &v.Obj.M[keys[len(keys)-1]].V
				h.cell("fk").V = HV{K: 's', Str: keys[len(keys)-1]}
			}
		}
		// the container is untouched; the loop variable ends as the last element +/- 1
		if last != nil {
			h.cell("fe").V = hNum(last.Num + delta)
		}
		return "", nil
	case "insert-scalar":
		src, err := h.readPath(*op.Src)
		if err != nil {
			return "", err
		}
		if len(op.Src.Steps) != 0 || len(op.T.Steps) != 0 || src.isContainer() || src.K == 'u' || op.Src.Base == op.T.Base {
			return "", errUnsupported{"insert-scalar needs two distinct variables, the source holding a scalar"}
		}
		held := &HObj{M: map[string]*HCell{"held": {V: src}}}
		h.cell(op.T.Base).V = HV{K: 'a', Arr: &HArr{Items: []*HCell{{V: src}, {V: HV{K: 'o', Obj: held}}}}}
		h.cell(op.Src.Base).V = HV{K: 's', Str: "changed"}
		return "", nil
	}
	return "", errUnsupported{"unknown op"}
}

// ---------------------------------------------------------------- case, program, parse, run

type HeapCase struct {
	Doc  string   `json:"doc"` // the input document (one JSON object)
	Vars []string `json:"vars"`
	Ops  []HOp    `json:"ops"`
	// Passes > 1: the document is in the input stream that many times, so the
	// rule (the same statements) runs again over a fresh $ while the variables
	// keep what the earlier passes left in them
	Passes int `json:"passes,omitempty"`
	// the further passes come from naming the root selector `$` Passes times over
	// a document that is in the input once: every selector is given a fresh document
	PassSelectors bool `json:"pass_selectors,omitempty"`
	// only set in the pinned witnesses of known findings K1 / K3
	AllowAliasedPad  bool `json:"allow_aliased_pad,omitempty"`
	AllowMethodKeys  bool `json:"allow_method_keys,omitempty"`
	AllowChainCreate bool `json:"allow_chain_create,omitempty"`
	AllowUnsetCopy   bool `json:"allow_unset_copy,omitempty"`
	AllowPopSelf     bool `json:"allow_pop_self,omitempty"`
}

func (c *HeapCase) dumpStmt() string {
	parts := []string{"print \"S\""}
	for _, v := range c.Vars {
		parts = append(parts, "["+v+"]")
	}
	parts = append(parts, "[fe]", "[fk]", "[$]")
	return strings.Join(parts, ", ")
}

func (c *HeapCase) program() string {
	var sb strings.Builder
	sb.WriteString(heapFuncs)
	sb.WriteString("{\n")
	sb.WriteString(c.dumpStmt() + "\n")
	for i := range c.Ops {
		sb.WriteString(c.Ops[i].render() + "\n")
		sb.WriteString(c.dumpStmt() + "\n")
	}
	sb.WriteString("}\n")
	return sb.String()
}

// parsePrinted parses the print format of a value back into canonical form.
func parsePrinted(s string, pos int) (string, int, bool) {
	if pos >= len(s) {
		return "", pos, false
	}
	switch {
	case strings.HasPrefix(s[pos:], "<unknown>"):
		return "<unknown>", pos + 9, true
	case strings.HasPrefix(s[pos:], "NaN"):
		return "NaN", pos + 3, true
	case strings.HasPrefix(s[pos:], "+Inf"):
		return "+Inf", pos + 4, true
	case strings.HasPrefix(s[pos:], "-Inf"):
		return "-Inf", pos + 4, true
	case strings.HasPrefix(s[pos:], "null"):
		return "null", pos + 4, true
	case strings.HasPrefix(s[pos:], "true"):
		return "true", pos + 4, true
	case strings.HasPrefix(s[pos:], "false"):
		return "false", pos + 5, true
	case s[pos] == '"':
		j := strings.IndexByte(s[pos+1:], '"')
		if j < 0 {
			return "", pos, false
		}
		return strconv.Quote(s[pos+1 : pos+1+j]), pos + j + 2, true
	case s[pos] == '[':
		pos++
		var parts []string
		if pos < len(s) && s[pos] == ']' {
			return "[]", pos + 1, true
		}
		for {
			v, np, ok := parsePrinted(s, pos)
			if !ok {
				return "", pos, false
			}
			parts = append(parts, v)
			pos = np
			if strings.HasPrefix(s[pos:], ", ") {
				pos += 2
				continue
			}
			if pos < len(s) && s[pos] == ']' {
				return "[" + strings.Join(parts, ",") + "]", pos + 1, true
			}
			return "", pos, false
		}
	case s[pos] == '{':
		pos++
		if pos < len(s) && s[pos] == '}' {
			return "{}", pos + 1, true
		}
		type kv struct{ k, v string }
		var kvs []kv
		for {
			if pos >= len(s) || s[pos] != '"' {
				return "", pos, false
			}
			j := strings.IndexByte(s[pos+1:], '"')
			if j < 0 {
				return "", pos, false
			}
			k := s[pos+1 : pos+1+j]
			pos += j + 2
			if !strings.HasPrefix(s[pos:], ": ") {
				return "", pos, false
			}
			pos += 2
			v, np, ok := parsePrinted(s, pos)
			if !ok {
				return "", pos, false
			}
			kvs = append(kvs, kv{k, v})
			pos = np
			if strings.HasPrefix(s[pos:], ", ") {
				pos += 2
				continue
			}
			if pos < len(s) && s[pos] == '}' {
				sort.Slice(kvs, func(a, b int) bool { return kvs[a].k < kvs[b].k })
				parts := make([]string, len(kvs))
				for i, e := range kvs {
					parts[i] = strconv.Quote(e.k) + ":" + e.v
				}
				return "{" + strings.Join(parts, ",") + "}", pos + 1, true
			}
			return "", pos, false
		}
	default:
		j := pos
		for j < len(s) && (s[j] == '-' || s[j] == '.' || (s[j] >= '0' && s[j] <= '9')) {
			j++
		}
		if j == pos {
			return "", pos, false
		}
		f, err := strconv.ParseFloat(s[pos:j], 64)
		if err != nil {
			return "", pos, false
		}
		return fmtNum(f), j, true
	}
}

// parseLine parses `TAG v1 v2 ...` into canonical values.
func parseLine(line string) (string, []string, bool) {
	sp := strings.IndexByte(line, ' ')
	if sp < 0 {
		return line, nil, true
	}
	tag := line[:sp]
	pos := sp + 1
	var vals []string
	for pos < len(line) {
		v, np, ok := parsePrinted(line, pos)
		if !ok {
			return tag, vals, false
		}
		vals = append(vals, v)
		pos = np
		if pos < len(line) && line[pos] == ' ' {
			pos++
		}
	}
	return tag, vals, true
}

func (c *HeapCase) newHeap() (*Heap, bool) {
	r := ScanStream([]byte(c.Doc))
	if r.Status != RefClean || len(r.Values) != 1 || r.Values[0].V.Kind != 'o' {
		return nil, false
	}
	h := &Heap{Vars: map[string]*HCell{}, allowAliasedPad: c.AllowAliasedPad, allowMethodKeys: c.AllowMethodKeys, allowChainCreate: c.AllowChainCreate, allowUnsetCopy: c.AllowUnsetCopy, allowPopSelf: c.AllowPopSelf}
	h.Names = append(append([]string{}, c.Vars...), "fe", "fk", "$")
	h.cell("$").V = fromJVal(r.Values[0].V)
	return h, true
}

func (h *Heap) dump(vars []string) []string {
	out := make([]string, 0, len(vars)+2)
	for _, v := range vars {
		out = append(out, "["+h.cell(v).V.canon()+"]")
	}
	out = append(out, "["+h.cell("fe").V.canon()+"]", "["+h.cell("fk").V.canon()+"]", "["+h.cell("$").V.canon()+"]")
	return out
}

func runHeapCase(c *HeapCase, keep bool) Outcome {
	lang.VerifResetProcessState()
	log := newEventLog(keep)
	o := Outcome{Probes: map[string]int{}}
	finish := func() Outcome {
		o.LogHash, o.Log, o.Steps = log.Hash(), log.lines, len(c.Ops)
		return o
	}
	h, ok := c.newHeap()
	if !ok {
		o.Skipped = "document outside the model's domain"
		return finish()
	}
	// expected lines
	type exp struct {
		tag  string
		vals []string
		op   int
	}
	var want []exp
	kinds := map[string]bool{}
	passes := c.Passes
	if passes < 1 {
		passes = 1
	}
	input := c.Doc
	for pass := 0; pass < passes; pass++ {
		if pass > 0 {
			fresh, _ := c.newHeap()
			h.cell("$").V = fresh.cell("$").V
			if c.PassSelectors {
				o.Probes["further_pass_by_repeated_root_selector"]++
			} else {
				input += "\n" + c.Doc
			}
			o.Probes["further_pass_over_fresh_document"]++
		}
		want = append(want, exp{"S", h.dump(c.Vars), -1})
		for i := range c.Ops {
			r, err := h.apply(&c.Ops[i])
			if err != nil {
				o.Skipped = "operation outside the model's domain: " + err.Error()
				return finish()
			}
			kinds[c.Ops[i].Kind] = true
			if r != "" {
				want = append(want, exp{"R", []string{r}, i})
			}
			want = append(want, exp{"S", h.dump(c.Vars), i})
		}
	}
	prog := c.program()
	var out bytes.Buffer
	kind, msg := "", ""
	func() {
		defer func() {
			if r := recover(); r != nil {
				kind, msg = "panic", fmt.Sprint(r)
			}
		}()
		var selectors []string
		if c.PassSelectors {
			for pass := 0; pass < passes; pass++ {
				selectors = append(selectors, "$")
			}
		}
		_, err := lang.EvalProgram(prog, []lang.InputFile{{Name: "doc.json", Reader: strings.NewReader(input)}}, selectors, &out, false)
		kind, msg = classifyErr(err)
	}()
	log.add('H', 0, "RUN ops=%d passes=%d kind=%s msg=%q", len(c.Ops), passes, kind, msg)
	if keep {
		log.lines = append(log.lines, "  program:\n"+prog, "  stdout:\n"+truncate(out.String(), 3000))
	}
	ks := make([]string, 0, len(kinds))
	for k := range kinds {
		ks = append(ks, k)
	}
	sort.Strings(ks)
	o.Shape = strings.Join(ks, ",") + "|" + strconv.Itoa(len(c.Ops)/4)
	o.Nontrivial = len(c.Ops) >= 2
	lines := strings.Split(strings.TrimSuffix(out.String(), "\n"), "\n")
	mayRefuse := len(c.Ops) > 0 && c.Ops[len(c.Ops)-1].Kind == "ret-member-assign"
	mustRefuse := len(c.Ops) > 0 && c.Ops[len(c.Ops)-1].Kind == "incdec-refused" && passes == 1
	for i, w := range want {
		if mustRefuse && i == len(want)-1 {
			if i >= len(lines) && kind == "RuntimeError" {
				o.Probes["increment_of_an_impossible_location_refused"]++
				return finish()
			}
			o.Class = "refused-write-ignored"
			o.Msg = fmt.Sprintf("operation #%d `%s` addresses a location that cannot exist (the plain assignment to it is a runtime error); the run went on (%s) as if nothing had been asked", w.op, opText(c, w.op), kind)
			if i < len(lines) {
				o.Msg += "; state afterwards: " + truncate(lines[i], 300)
			}
			return finish()
		}
		if i >= len(lines) && mayRefuse && i == len(want)-1 && kind == "RuntimeError" {
			// the last operation was refused with a runtime error: nothing was changed
			o.Probes["assignment_through_returned_null_refused"]++
			return finish()
		}
		if i >= len(lines) {
			o.Class = "run-stopped"
			o.Msg = fmt.Sprintf("the run ended (%s: %s) before operation #%d `%s` completed", kind, msg, w.op, opText(c, w.op))
			return finish()
		}
		tag, vals, ok := parseLine(lines[i])
		if !ok || tag != w.tag || len(vals) != len(w.vals) {
			o.Class = "unparsable-state"
			o.Msg = fmt.Sprintf("after operation #%d `%s`: cannot read the state line %q", w.op, opText(c, w.op), truncate(lines[i], 300))
			return finish()
		}
		for k := range vals {
			if vals[k] != w.vals[k] {
				name := "result"
				if w.tag == "S" {
					names := append(append([]string{}, c.Vars...), "fe", "fk", "$")
					name = names[k]
				}
				o.Class = "state-mismatch"
				if w.tag == "R" {
					o.Class = "result-mismatch"
				}
				if w.op >= 0 && c.Ops[w.op].Kind == "read" && w.tag == "S" {
					o.Class = "read-changed-state"
				}
				o.Msg = fmt.Sprintf("after operation #%d `%s`: %s is %s, the reference heap says %s", w.op, opText(c, w.op), name, vals[k], w.vals[k])
				return finish()
			}
		}
	}
	if kind != "success" {
		o.Class, o.Msg = "run-failed", fmt.Sprintf("all operations matched but the run ended in %s: %s", kind, msg)
	}
	return finish()
}

func opText(c *HeapCase, i int) string {
	if i < 0 {
		return "<initial state>"
	}
	return c.Ops[i].render()
}

// ---------------------------------------------------------------- generator

var heapKeys = []string{"a", "b", "c", "k", "list", "m", "n"}
var heapVarNames = []string{"x", "y", "z", "w", "q"}
var heapScalarLits = []string{"1", "2", "7", "0", "42", "2.5", "-3", `"s"`, `"abc"`, `"t u"`, "true", "false", "null"}
var heapContainerLits = []string{"[4, 5, 6, 7]", "[1, 2]", "[]", "{}", `{"a": 1}`, `{"k": [1, 2, 3], "m": {"n": 5}}`, `[{"a": 1}, {"a": 2}, 3]`, "[[1], [2, 3]]", `{"list": [10, 20, 30]}`, `[5, {"b": {"c": 1}}]`}

func genHeapDoc(t *Tape) string {
	docs := []string{
		`{"a": 1, "b": "two", "list": [1, 2, 3], "m": {"k": true, "n": null}}`,
		`{"list": [{"a": 1}, {"a": 2}], "k": 5}`,
		`{}`,
		`{"a": {"b": {"c": [1, [2, 3], {"k": "v"}]}}, "n": 0}`,
		`{"list": [], "m": {}, "c": "str", "b": false}`,
		`{"k": [[1, 2], [3]], "a": 2.5}`,
	}
	return docs[t.Draw(len(docs))]
}

// genPath draws a path; guided by the current heap so that most paths go through existing structure.
func genHeapPath(t *Tape, h *Heap, vars []string, forWrite bool) HPath {
	bases := append(append([]string{}, vars...), "$")
	p := HPath{Base: bases[t.Draw(len(bases))]}
	v := h.cell(p.Base).V
	depth := t.Weighted(3, 4, 3, 2, 1)
	for d := 0; d < depth; d++ {
		switch v.K {
		case 'o':
			keys := make([]string, 0, len(v.Obj.M))
			for k := range v.Obj.M {
				keys = append(keys, k)
			}
			sort.Strings(keys)
			if t.Chance(1, 10) {
				// a numeric index on an object addresses the key spelled like the number
				lit := []string{"0", "1", "2", "1.5", "0.5", "2.25", "10", "7"}[t.Draw(8)]
				f, _ := strconv.ParseFloat(lit, 64)
				k := fmtNum(f)
				p.Steps = append(p.Steps, HStep{Key: k, KeyNum: lit})
				if m, ok := v.Obj.M[k]; ok {
					v = m.V
				} else {
					v = HV{K: 'u'}
				}
			} else if len(keys) > 0 && t.Chance(3, 4) {
				k := keys[t.Draw(len(keys))]
				p.Steps = append(p.Steps, HStep{Key: k})
				v = v.Obj.M[k].V
			} else {
				k := heapKeys[t.Draw(len(heapKeys))]
				p.Steps = append(p.Steps, HStep{Key: k})
				if m, ok := v.Obj.M[k]; ok {
					v = m.V
				} else {
					v = HV{K: 'u'}
				}
			}
		case 'a':
			n := len(v.Arr.Items)
			var idx int
			switch t.Weighted(5, 2, 2) {
			case 0:
				if n > 0 {
					idx = t.Draw(n)
				}
			case 1:
				if n > 0 {
					idx = -1 - t.Draw(n)
				}
			default:
				idx = n + t.Draw(3)
			}
			p.Steps = append(p.Steps, HStep{IsIdx: true, Idx: idx})
			real := idx
			if real < 0 {
				real += n
			}
			if real >= 0 && real < n {
				v = v.Arr.Items[real].V
			} else {
				v = HV{K: 'u'}
			}
		case 'u':
			// below a missing location: any kind sequence
			if t.Chance(1, 2) {
				p.Steps = append(p.Steps, HStep{Key: heapKeys[t.Draw(len(heapKeys))]})
			} else {
				p.Steps = append(p.Steps, HStep{IsIdx: true, Idx: t.Draw(4)})
			}
		default:
			return p
		}
	}
	return p
}

func genHeapCase(t *Tape, maxOps int) *HeapCase {
	c := &HeapCase{Doc: genHeapDoc(t)}
	nv := 2 + t.Draw(3)
	c.Vars = heapVarNames[:nv]
	h, _ := c.newHeap()
	n := 3 + t.Draw(maxOps)
	for tries := 0; len(c.Ops) < n && tries < n*8; tries++ {
		var op HOp
		switch t.Weighted(6, 6, 3, 3, 5, 3, 1, 1, 1, 2, 1, 1, 1, 1, 1, 2, 2, 3, 2, 2, 2) {
		case 20:
			src := genHeapPath(t, h, c.Vars, false)
			op = HOp{Kind: "assign-probe", T: genHeapPath(t, h, c.Vars, true), Src: &src}
		case 19:
			p := genHeapPath(t, h, c.Vars, false)
			n := 0
			if v, err := h.readPath(p); err == nil && v.K == 'a' {
				n = len(v.Arr.Items)
			}
			op = HOp{Kind: "match-early", T: p, Idx: n, Fn: []string{"continue", "break"}[t.Draw(2)]}
			if t.Chance(1, 2) {
				op.Key = c.Vars[t.Draw(nv)]
			}
			if t.Chance(1, 2) {
				op = HOp{Kind: "match-assign", T: p, Idx: n, Num: float64(t.Draw(4)), Lit: heapScalarLits[t.Draw(len(heapScalarLits))], Op: []string{"=", "++"}[t.Draw(2)]}
			}
		case 18:
			op = HOp{Kind: "self-chain", T: genHeapPath(t, h, c.Vars, true), Op: []string{"pre++", "pre--", "post++", "post--", "+", "-", "*", "+&", "-&", "+&"}[t.Draw(10)], Num: float64(1 + t.Draw(9))}
		case 17:
			op = HOp{Kind: "method", T: genHeapPath(t, h, c.Vars, false), Fn: []string{"pop", "pop", "popfirst", "push"}[t.Draw(4)], Lit: heapScalarLits[t.Draw(len(heapScalarLits))]}
		case 16:
			src := HPath{Base: c.Vars[t.Draw(nv)]}
			op = HOp{Kind: "opassign-incidx", T: genHeapPath(t, h, c.Vars, false), Src: &src, Op: []string{"+", "-", "*"}[t.Draw(3)], Num: float64(1 + t.Draw(9))}
		case 14:
			op = HOp{Kind: "scratch-call", Lit: heapScalarLits[t.Draw(len(heapScalarLits))]}
		case 15:
			src := genHeapPath(t, h, c.Vars, false)
			nk := 1 + t.Draw(3)
			var keys []string
			for k := 0; k < nk; k++ {
				keys = append(keys, heapKeys[t.Draw(len(heapKeys))])
			}
			op = HOp{Kind: "pluck", T: genHeapPath(t, h, c.Vars, true), Src: &src, Keys: keys}
		case 9:
			src := genHeapPath(t, h, c.Vars, true)
			op = HOp{Kind: "chain-assign", T: genHeapPath(t, h, c.Vars, true), Src: &src, Lit: heapScalarLits[t.Draw(len(heapScalarLits))]}
		case 10:
			a, b := t.Draw(nv), t.Draw(nv)
			src := HPath{Base: c.Vars[b]}
			op = HOp{Kind: "lit-alias", T: HPath{Base: c.Vars[a]}, Src: &src, Lit: heapScalarLits[t.Draw(len(heapScalarLits))]}
		case 11:
			src := HPath{Base: c.Vars[t.Draw(nv)]}
			op = HOp{Kind: "arg-alias", Src: &src}
		case 12:
			op = HOp{Kind: "forin-incr", T: genHeapPath(t, h, c.Vars, false), Op: []string{"++", "--"}[t.Draw(2)]}
		case 13:
			op = HOp{Kind: "forin-kv-incr", T: genHeapPath(t, h, c.Vars, false), Op: []string{"++", "--"}[t.Draw(2)]}
		case 0:
			op = HOp{Kind: "assign-lit", T: genHeapPath(t, h, c.Vars, true)}
			if t.Chance(1, 2) {
				op.Lit = heapScalarLits[t.Draw(len(heapScalarLits))]
			} else {
				op.Lit = heapContainerLits[t.Draw(len(heapContainerLits))]
			}
		case 1:
			src := genHeapPath(t, h, c.Vars, false)
			op = HOp{Kind: "assign-path", T: genHeapPath(t, h, c.Vars, true), Src: &src}
		case 2:
			op = HOp{Kind: "opassign", T: genHeapPath(t, h, c.Vars, true), Op: []string{"+", "-", "*"}[t.Draw(3)], Num: float64(1 + t.Draw(9))}
		case 3:
			op = HOp{Kind: "incdec", T: genHeapPath(t, h, c.Vars, true), Op: []string{"post++", "pre++", "post--", "pre--"}[t.Draw(4)]}
		case 4:
			op = HOp{Kind: "read", T: genHeapPath(t, h, c.Vars, false)}
		case 5:
			op = HOp{Kind: "call", T: genHeapPath(t, h, c.Vars, false), Fn: []string{"setk", "seti", "repl", "incp", "setkm"}[t.Draw(5)], Key: heapKeys[t.Draw(len(heapKeys))], Idx: t.Draw(4) - 1, Lit: heapScalarLits[t.Draw(len(heapScalarLits))]}
		case 6:
			op = HOp{Kind: "forin-set", T: genHeapPath(t, h, c.Vars, false), Key: heapKeys[t.Draw(len(heapKeys))], Lit: heapScalarLits[t.Draw(len(heapScalarLits))]}
		case 7:
			op = HOp{Kind: "forin-rebind", T: genHeapPath(t, h, c.Vars, false), Lit: heapScalarLits[t.Draw(len(heapScalarLits))]}
		default:
			a, b := t.Draw(nv), t.Draw(nv)
			src := HPath{Base: c.Vars[b]}
			op = HOp{Kind: "insert-scalar", T: HPath{Base: c.Vars[a]}, Src: &src}
		}
		// keep only operations the model supports in the current state (checked on a clone-free dry run)
		if err := h.dryRun(&op); err != nil {
			continue
		}
		if _, err := h.apply(&op); err != nil {
			// cannot happen after a successful dry run; stop extending this history
			break
		}
		c.Ops = append(c.Ops, op)
	}
	if t.Chance(1, 12) {
		// ++/-- on a location that cannot exist, as the last operation
		var cands []HPath
		for _, base := range append(append([]string{}, c.Vars...), "$") {
			v := h.cell(base).V
			if v.K == 'z' || v.K == 'n' {
				cands = append(cands, HPath{Base: base, Steps: []HStep{{Key: heapKeys[t.Draw(len(heapKeys))]}}})
			}
			if v.K == 'o' {
				for _, k := range sortedKeysOf(v.Obj) {
					if m := v.Obj.M[k].V; (m.K == 'z' && !v.Obj.M[k].absent) || m.K == 'n' {
						cands = append(cands, HPath{Base: base, Steps: []HStep{{Key: k}, {Key: heapKeys[t.Draw(len(heapKeys))]}}})
					}
				}
				cands = append(cands, HPath{Base: base, Steps: []HStep{{Key: "zz_absent"}, {IsIdx: true, Idx: -1 - t.Draw(2)}}})
			}
		}
		if len(cands) > 0 {
			op := HOp{Kind: "incdec-refused", T: cands[t.Draw(len(cands))], Op: []string{"pre++", "post++", "pre--", "post--"}[t.Draw(4)]}
			if h.dryRun(&op) == nil {
				c.Ops = append(c.Ops, op)
				return c
			}
		}
	}
	if t.Chance(1, 12) {
		op := HOp{Kind: "ret-member-assign", T: genHeapPath(t, h, c.Vars, false), Key: heapKeys[t.Draw(len(heapKeys))], Lit: heapScalarLits[t.Draw(len(heapScalarLits))]}
		if h.dryRun(&op) == nil {
			c.Ops = append(c.Ops, op)
			return c
		}
	}
	if t.Chance(1, 3) {
		// further passes of the same statements over a fresh document; kept only
		// when every operation stays inside the model's domain in every pass
		want := 2 + t.Draw(2)
		h2, _ := c.newHeap()
		ok := true
		for pass := 0; pass < want && ok; pass++ {
			if pass > 0 {
				fresh, _ := c.newHeap()
				h2.cell("$").V = fresh.cell("$").V
			}
			for i := range c.Ops {
				if err := h2.dryRun(&c.Ops[i]); err != nil {
					ok = false
					break
				}
				if _, err := h2.apply(&c.Ops[i]); err != nil {
					ok = false
					break
				}
			}
		}
		if ok {
			c.Passes = want
			c.PassSelectors = t.Chance(1, 3)
		}
	}
	return c
}

// methodOK: pop/popfirst/push through a path that addresses an existing array
// held by exactly one cell (a length change seen through a second reference is
// known finding K1).
func (h *Heap) methodOK(op *HOp) error {
	// the receiver must exist: every step addresses a present member
	c := h.cell(op.T.Base)
	v := c.V
	for _, s := range op.T.Steps {
		switch v.K {
		case 'o':
			m, ok := v.Obj.M[s.Key]
			if s.IsIdx || !ok {
				return errUnsupported{"receiver path does not exist"}
			}
			v = m.V
		case 'a':
			idx := s.Idx
			if idx < 0 {
				idx += len(v.Arr.Items)
			}
			if !s.IsIdx || idx < 0 || idx >= len(v.Arr.Items) {
				return errUnsupported{"receiver path does not exist"}
			}
			v = v.Arr.Items[idx].V
		default:
			return errUnsupported{"receiver path does not exist"}
		}
	}
	if v.K != 'a' {
		return errUnsupported{"receiver is not an array"}
	}
	if h.arrRefs(v.Arr) > 1 && !h.allowAliasedPad {
		return errUnsupported{"length change on an array reachable through two or more cells (known finding K1)"}
	}
	if op.Fn == "push" {
		r := ScanStream([]byte(op.Lit))
		if r.Status != RefClean || len(r.Values) != 1 {
			return errUnsupported{"bad literal"}
		}
	}
	return nil
}

// refusedOK: the path's last step hangs off an explicit null or a number (both
// present in the heap), or is a negative index on a member that does not exist.
func (h *Heap) refusedOK(op *HOp) error {
	n := len(op.T.Steps)
	if n == 0 {
		return errUnsupported{"needs a step"}
	}
	parent := HPath{Base: op.T.Base, Steps: op.T.Steps[:n-1]}
	last := op.T.Steps[n-1]
	if last.IsIdx && last.Idx < 0 {
		// o.missing[-1]: the parent path must end in a member that is absent from an existing object
		if n < 2 || parent.Steps[n-2].IsIdx {
			return errUnsupported{"needs a missing member"}
		}
		gp := HPath{Base: op.T.Base, Steps: op.T.Steps[:n-2]}
		g, err := h.readPath(gp)
		if err != nil || g.K != 'o' {
			return errUnsupported{"needs an object"}
		}
		if _, present := g.Obj.M[parent.Steps[n-2].Key]; present || heapMethodNames[parent.Steps[n-2].Key] {
			return errUnsupported{"member exists"}
		}
		return nil
	}
	// every step of the parent path must address something present
	probe := HOp{Kind: "method", T: parent, Fn: "pop"}
	if err := h.methodOK(&probe); err == nil {
		return errUnsupported{"parent is an array"}
	}
	c := h.cell(parent.Base)
	v := c.V
	for _, s := range parent.Steps {
		switch v.K {
		case 'o':
			m, ok := v.Obj.M[s.Key]
			if s.IsIdx || !ok {
				return errUnsupported{"parent path does not exist"}
			}
			v = m.V
		case 'a':
			idx := s.Idx
			if !s.IsIdx || idx < 0 || idx >= len(v.Arr.Items) {
				return errUnsupported{"parent path does not exist"}
			}
			v = v.Arr.Items[idx].V
		default:
			return errUnsupported{"parent path does not exist"}
		}
	}
	if v.K != 'z' && v.K != 'n' {
		return errUnsupported{"parent is neither null nor a number"}
	}
	if last.IsIdx || heapMethodNames[last.Key] {
		return errUnsupported{"member step only"}
	}
	return nil
}

func (h *Heap) probeOK(op *HOp) error {
	if op.Src == nil {
		return errUnsupported{"source"}
	}
	// the probed value must exist and be an object (missing members of an object read as null)
	probe := HOp{Kind: "ret-member-assign", T: *op.Src}
	if err := h.dryRun(&probe); err != nil {
		return err
	}
	if err := h.methodPathExists(*op.Src); err != nil {
		return err
	}
	if err := h.prevalidateWrite(op.T); err != nil {
		return err
	}
	if h.createsIntermediate(op.T) && !h.allowChainCreate {
		return errUnsupported{"intermediate"}
	}
	for _, st := range op.T.Steps {
		if st.IsIdx && st.Idx < 0 {
			return errUnsupported{"negative index"}
		}
	}
	return nil
}

// methodPathExists: every step of p addresses something present.
func (h *Heap) methodPathExists(p HPath) error {
	v := h.cell(p.Base).V
	for _, s := range p.Steps {
		switch v.K {
		case 'o':
			m, ok := v.Obj.M[s.Key]
			if s.IsIdx || !ok {
				return errUnsupported{"path does not exist"}
			}
			v = m.V
		case 'a':
			idx := s.Idx
			if idx < 0 {
				idx += len(v.Arr.Items)
			}
			if !s.IsIdx || idx < 0 || idx >= len(v.Arr.Items) {
				return errUnsupported{"path does not exist"}
			}
			v = v.Arr.Items[idx].V
		default:
			return errUnsupported{"path does not exist"}
		}
	}
	return nil
}

func (h *Heap) selfChainOK(op *HOp) error {
	if len(op.T.Steps) == 0 {
		return errUnsupported{"self-chain needs a member or an index"}
	}
	cur, err := h.readPath(op.T)
	if err != nil {
		return err
	}
	if _, ok := asNum(cur); !ok || cur.K == 'u' {
		return errUnsupported{"arithmetic on a non-number"}
	}
	if err := h.prevalidateWrite(op.T); err != nil {
		return err
	}
	if h.createsIntermediate(op.T) && !h.allowChainCreate {
		return errUnsupported{"the target needs a missing intermediate that the right-hand side creates first (known finding K8)"}
	}
	for _, st := range op.T.Steps {
		if st.IsIdx && st.Idx < 0 {
			return errUnsupported{"negative index: resolving before or after the right-hand side may differ"}
		}
	}
	return nil
}

// dryRun reports whether apply would succeed, without mutating the heap.
func (h *Heap) dryRun(op *HOp) error {
	switch op.Kind {
	case "method":
		return h.methodOK(op)
	case "self-chain":
		return h.selfChainOK(op)
	case "incdec-refused":
		return h.refusedOK(op)
	case "assign-probe":
		return h.probeOK(op)
	case "ret-member-assign":
		v, err := h.readPath(op.T)
		if err != nil {
			return err
		}
		if v.K != 'o' {
			return errUnsupported{"needs an object"}
		}
		return nil
	case "match-early":
		v, err := h.readPath(op.T)
		if err != nil {
			return err
		}
		if v.K != 'a' || len(v.Arr.Items) != op.Idx || op.Idx == 0 {
			return errUnsupported{"needs an array of exactly that many elements"}
		}
		return nil
	case "match-assign":
		_, err := h.apply(op) // validates only
		return err
	case "assign-lit":
		return h.prevalidateWrite(op.T)
	case "assign-path":
		val, err := h.readPath(*op.Src)
		if err != nil {
			return err
		}
		if val.K == 'u' {
			return errUnsupported{"copy of an unset variable"}
		}
		if err := h.prevalidateWrite(op.T); err != nil {
			return err
		}
		if h.wouldCycle(op.T, val) {
			return errUnsupported{"cycle"}
		}
		// sharing an array that the target path itself pads is excluded: pad happens first, share after
		return nil
	case "opassign", "incdec":
		cur, err := h.readPath(op.T)
		if err != nil {
			return err
		}
		if _, ok := asNum(cur); !ok {
			return errUnsupported{"non-number"}
		}
		return h.prevalidateWrite(op.T)
	case "read":
		v, err := h.readPath(op.T)
		if err != nil {
			return err
		}
		if v.K == 'u' {
			return errUnsupported{"unset"}
		}
		return nil
	case "call":
		v, err := h.readPath(op.T)
		if err != nil {
			return err
		}
		switch op.Fn {
		case "setk", "setkm":
			if v.K != 'o' {
				return errUnsupported{"setk"}
			}
		case "seti":
			if v.K != 'a' {
				return errUnsupported{"seti"}
			}
			idx := op.Idx
			if idx < 0 {
				idx += len(v.Arr.Items)
			}
			if idx < 0 || idx >= len(v.Arr.Items) {
				return errUnsupported{"seti range"}
			}
		case "repl":
			if v.K == 'u' {
				return errUnsupported{"unset"}
			}
		default:
			if v.K != 'n' {
				return errUnsupported{"incp"}
			}
		}
		return nil
	case "forin-set", "forin-rebind":
		v, err := h.readPath(op.T)
		if err != nil {
			return err
		}
		if v.K != 'a' {
			return errUnsupported{"forin"}
		}
		return nil
	case "insert-scalar":
		src, err := h.readPath(*op.Src)
		if err != nil {
			return err
		}
		if src.isContainer() || src.K == 'u' || op.Src.Base == op.T.Base {
			return errUnsupported{"insert-scalar"}
		}
		return nil
	case "chain-assign":
		// both targets must be writable and must not influence each other's resolution: keep to distinct bases
		if op.Src.Base == op.T.Base && (len(op.Src.Steps) == 0 || len(op.T.Steps) == 0) {
			return errUnsupported{"chain-assign on a variable and its own member"}
		}
		if err := h.prevalidateWrite(*op.Src); err != nil {
			return err
		}
		if h.createsIntermediate(op.T) && !h.allowChainCreate {
			return errUnsupported{"known finding K8"}
		}
		if !h.chainIndependent(op.T, *op.Src) {
			return errUnsupported{"order-dependent chain assignment"}
		}
		return h.prevalidateWrite(op.T)
	case "pluck":
		src, err := h.readPath(*op.Src)
		if err != nil {
			return err
		}
		if src.K != 'o' {
			return errUnsupported{"pluck needs an object"}
		}
		if err := h.prevalidateWrite(op.T); err != nil {
			return err
		}
		// the new object shares the source's container members: storing it below one of them would be a cycle
		seenA, seenO := map[*HArr]bool{}, map[*HObj]bool{}
		for _, k := range op.Keys {
			if heapMethodNames[k] {
				return errUnsupported{"method-named key"}
			}
			if m, ok := src.Obj.M[k]; ok {
				reach(m.V, seenA, seenO)
			}
		}
		v := h.cell(op.T.Base).V
		for _, st := range op.T.Steps {
			switch v.K {
			case 'a':
				if seenA[v.Arr] {
					return errUnsupported{"cycle"}
				}
				idx := st.Idx
				if idx < 0 {
					idx += len(v.Arr.Items)
				}
				if !st.IsIdx || idx < 0 || idx >= len(v.Arr.Items) {
					return nil
				}
				v = v.Arr.Items[idx].V
			case 'o':
				if seenO[v.Obj] {
					return errUnsupported{"cycle"}
				}
				m, ok := v.Obj.M[st.Key]
				if st.IsIdx || !ok {
					return nil
				}
				v = m.V
			default:
				return nil
			}
		}
		return nil
	case "scratch-call", "opassign-incidx":
		return nil
	case "lit-alias", "arg-alias", "forin-incr", "forin-kv-incr":
		// cheap to decide by running it on a throw-away heap built from the same history is not available here:
		// these kinds validate all their preconditions before mutating, so apply itself is the dry run
		return nil
	}
	return errUnsupported{"unknown"}
}

func registerC09() {
	mk := func(name string, count map[string]int, maxOps int) *Workload {
		return &Workload{
			Name:  name,
			Count: func(tier string) int { return count[tier] },
			Gen: func(i int, t *Tape, tier string) any {
				if tier == "thorough" {
					return genHeapCase(t, maxOps*5/2)
				}
				return genHeapCase(t, maxOps)
			},
			Run:      func(c any, keep bool) Outcome { return runHeapCase(c.(*HeapCase), keep) },
			New:      func() any { return &HeapCase{} },
			Simplify: simplifyHeap,
		}
	}
	register(&Property{
		ID:    "C09",
		Level: "exploration",
		Rule:  "seeded histories of 3-40 operations (assign literal / copy-or-share from a path; member and index writes through chains of depth 0-4 over existing, missing and unset bases incl. negative and past-the-end indices; op= for + - *; prefix/postfix ++/--; pure reads incl. missing keys and out-of-range indices; functions that mutate, replace or increment their parameter; for-in loop variables mutated and rebound; scalars inserted into containers and then changed) over 2-4 variables and a $-rooted document; after every operation every variable and the document are printed and compared path by path with a reference heap (scalars by value, containers by reference). Distinct = distinct (set of operation kinds, length bucket); non-trivial = at least two operations.",
		Assumptions: []string{
			"no fault or interleaving dimension exists for this property; what the harness contributes is seeded history search, per-step model conformance, minimisation and replay",
			"known finding K1: no length-changing write (past-the-end index) on an array that the reference heap sees through two or more cells",
			"known finding K3: member names are never names of prototype methods",
			"known finding K10: an unset variable is never stored into a container (reading through the stored unset value turns it into {} and thereby changes the document)",
			"known finding K8: in `T = (S = v)` the outer target T never needs a missing intermediate (only its final location may be new)",
			"statement-silent cases are not generated: fractional indices, numeric index on an object, member of an array, writes through explicit nulls or scalars, reads through unset variables, cycles",
			"strings contain no quotes or escapes, so the printed rendering parses unambiguously; key order is ignored",
		},
		Components: libComponents,
		Workloads: []*Workload{
			mk("histories", map[string]int{"quick": 400000, "thorough": 8000000}, 14),
			mk("long-histories", map[string]int{"quick": 40000, "thorough": 800000}, 40),
		},
	})
}

func sortedKeysOf(o *HObj) []string {
	ks := make([]string, 0, len(o.M))
	for k := range o.M {
		ks = append(ks, k)
	}
	sort.Strings(ks)
	return ks
}
