package main

import (
	"fmt"
	"os"
)

func main() {
	if len(os.Args) < 2 {
		fmt.Fprintln(os.Stderr, "usage: simcheck check <P> <quick|thorough> | replay <file> | selftest | version")
		os.Exit(2)
	}
	registerAll()
	switch os.Args[1] {
	case "version":
		fmt.Println("simcheck: deterministic-simulation harness for jqawk")
	case "check":
		if len(os.Args) < 4 {
			fmt.Fprintln(os.Stderr, "usage: simcheck check <P> <tier>")
			os.Exit(2)
		}
		os.Exit(checkMain(os.Args[2], os.Args[3]))
	case "worker":
		workerMain(os.Args[2:])
	case "one":
		oneMain(os.Args[2:])
	case "hashes":
		os.Exit(hashesMain(os.Args[2:]))
	case "runitems":
		os.Exit(runitemsMain())
	case "replay":
		os.Exit(replayMain(os.Args[2]))
	case "selftest":
		os.Exit(selftestMain(os.Args[2:]))
	case "gen":
		os.Exit(genMain(os.Args[2:]))
	default:
		fmt.Fprintln(os.Stderr, "unknown subcommand", os.Args[1])
		os.Exit(2)
	}
}
