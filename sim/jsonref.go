package main

// jsonref: an independent, hand-written scanner/parser for "concatenated JSON
// values with optional whitespace" (RFC 8259 values, greedy tokens). For any
// byte string it returns the complete values with their byte extents and a
// terminal status. It is the oracle for "which values are complete in this
// byte stream", written from the RFC, not from encoding/json.

import (
	"strconv"
	"unicode/utf8"
)

type JVal struct {
	Kind byte // 'n' number, 's' string, 'b' bool, 'z' null, 'a' array, 'o' object
	Num  float64
	Str  string
	Bool bool
	Arr  []*JVal
	Keys []string
	Vals []*JVal
}

type RefValue struct {
	V          *JVal
	Start, End int // End exclusive
}

const (
	RefClean     = 0
	RefMalformed = 1
	RefTruncated = 2
)

type RefResult struct {
	Values      []RefValue
	Status      int
	DefectStart int  // start offset of the partial value / stray text
	DefectAt    int  // offset of the byte that cannot continue (len(b) when truncated)
	Dubious     bool // input touches a class the property does not specify (see DESIGN 3.1)
}

type refParser struct {
	b       []byte
	dubious bool
}

func isWS(c byte) bool { return c == ' ' || c == '\t' || c == '\n' || c == '\r' }

// status codes for parse functions
const (
	pOK = iota
	pMalformed
	pTruncated
)

func ScanStream(b []byte) RefResult {
	p := &refParser{b: b}
	res := RefResult{}
	pos := 0
	for {
		for pos < len(b) && isWS(b[pos]) {
			pos++
		}
		if pos >= len(b) {
			res.Status = RefClean
			break
		}
		v, end, st, at := p.value(pos, 0, true)
		if st == pOK {
			res.Values = append(res.Values, RefValue{v, pos, end})
			pos = end
			continue
		}
		res.DefectStart = pos
		res.DefectAt = at
		if st == pMalformed {
			res.Status = RefMalformed
		} else {
			res.Status = RefTruncated
		}
		break
	}
	res.Dubious = p.dubious
	return res
}

// value parses one value starting at pos (no leading whitespace).
// returns value, exclusive end, status, offset of offending byte.
func (p *refParser) value(pos int, depth int, top bool) (*JVal, int, int, int) {
	b := p.b
	if pos >= len(b) {
		return nil, pos, pTruncated, pos
	}
	if depth > 5000 {
		p.dubious = true
	}
	c := b[pos]
	switch {
	case c == '{':
		return p.object(pos, depth)
	case c == '[':
		return p.array(pos, depth)
	case c == '"':
		s, end, st, at := p.str(pos)
		if st != pOK {
			return nil, end, st, at
		}
		return &JVal{Kind: 's', Str: s}, end, pOK, 0
	case c == '-' || (c >= '0' && c <= '9'):
		return p.number(pos, top)
	case c == 't':
		return p.literal(pos, "true", &JVal{Kind: 'b', Bool: true})
	case c == 'f':
		return p.literal(pos, "false", &JVal{Kind: 'b', Bool: false})
	case c == 'n':
		return p.literal(pos, "null", &JVal{Kind: 'z'})
	}
	return nil, pos, pMalformed, pos
}

func (p *refParser) literal(pos int, word string, v *JVal) (*JVal, int, int, int) {
	b := p.b
	for i := 0; i < len(word); i++ {
		if pos+i >= len(b) {
			return nil, pos + i, pTruncated, pos + i
		}
		if b[pos+i] != word[i] {
			return nil, pos + i, pMalformed, pos + i
		}
	}
	return v, pos + len(word), pOK, 0
}

func isDigit(c byte) bool { return c >= '0' && c <= '9' }

// number: -?(0|[1-9][0-9]*)(\.[0-9]+)?([eE][+-]?[0-9]+)? with committed
// transitions (once '.', 'e' is consumed the following digit is mandatory).
// At end of input a number token is complete if it is in an accepting state.
func (p *refParser) number(pos int, top bool) (*JVal, int, int, int) {
	b := p.b
	i := pos
	if b[i] == '-' {
		i++
		if i >= len(b) {
			return nil, i, pTruncated, i
		}
		if !isDigit(b[i]) {
			return nil, i, pMalformed, i
		}
	}
	if b[i] == '0' {
		i++
	} else {
		for i < len(b) && isDigit(b[i]) {
			i++
		}
	}
	if i < len(b) && b[i] == '.' {
		i++
		if i >= len(b) {
			return nil, i, pTruncated, i
		}
		if !isDigit(b[i]) {
			return nil, i, pMalformed, i
		}
		for i < len(b) && isDigit(b[i]) {
			i++
		}
	}
	if i < len(b) && (b[i] == 'e' || b[i] == 'E') {
		i++
		if i >= len(b) {
			return nil, i, pTruncated, i
		}
		if b[i] == '+' || b[i] == '-' {
			i++
			if i >= len(b) {
				return nil, i, pTruncated, i
			}
		}
		if !isDigit(b[i]) {
			return nil, i, pMalformed, i
		}
		for i < len(b) && isDigit(b[i]) {
			i++
		}
	}
	text := string(b[pos:i])
	f, err := strconv.ParseFloat(text, 64)
	if err != nil {
		// syntactically valid but out of range for a double: unspecified
		p.dubious = true
	}
	return &JVal{Kind: 'n', Num: f}, i, pOK, 0
}

func hexVal(c byte) int {
	switch {
	case c >= '0' && c <= '9':
		return int(c - '0')
	case c >= 'a' && c <= 'f':
		return int(c-'a') + 10
	case c >= 'A' && c <= 'F':
		return int(c-'A') + 10
	}
	return -1
}

func (p *refParser) str(pos int) (string, int, int, int) {
	b := p.b
	i := pos + 1
	out := make([]byte, 0, 16)
	for {
		if i >= len(b) {
			return "", i, pTruncated, i
		}
		c := b[i]
		switch {
		case c == '"':
			if !utf8.Valid(out) {
				p.dubious = true
			}
			return string(out), i + 1, pOK, 0
		case c < 0x20:
			return "", i, pMalformed, i
		case c == '\\':
			i++
			if i >= len(b) {
				return "", i, pTruncated, i
			}
			switch b[i] {
			case '"':
				out = append(out, '"')
			case '\\':
				out = append(out, '\\')
			case '/':
				out = append(out, '/')
			case 'b':
				out = append(out, '\b')
			case 'f':
				out = append(out, '\f')
			case 'n':
				out = append(out, '\n')
			case 'r':
				out = append(out, '\r')
			case 't':
				out = append(out, '\t')
			case 'u':
				r := 0
				for k := 1; k <= 4; k++ {
					if i+k >= len(b) {
						return "", i + k, pTruncated, i + k
					}
					h := hexVal(b[i+k])
					if h < 0 {
						return "", i + k, pMalformed, i + k
					}
					r = r*16 + h
				}
				i += 4
				if r >= 0xD800 && r < 0xDC00 {
					// high surrogate: needs \uDC00..\uDFFF next
					if i+6 < len(b) && b[i+1] == '\\' && b[i+2] == 'u' {
						r2 := 0
						ok := true
						for k := 3; k <= 6; k++ {
							h := hexVal(b[i+k])
							if h < 0 {
								ok = false
								break
							}
							r2 = r2*16 + h
						}
						if ok && r2 >= 0xDC00 && r2 < 0xE000 {
							i += 6
							cp := 0x10000 + (r-0xD800)<<10 + (r2 - 0xDC00)
							out = utf8.AppendRune(out, rune(cp))
							break
						}
					}
					p.dubious = true
					out = utf8.AppendRune(out, utf8.RuneError)
				} else if r >= 0xDC00 && r < 0xE000 {
					p.dubious = true
					out = utf8.AppendRune(out, utf8.RuneError)
				} else {
					out = utf8.AppendRune(out, rune(r))
				}
			default:
				return "", i, pMalformed, i
			}
			i++
		default:
			out = append(out, c)
			i++
		}
	}
}

func (p *refParser) skipWS(i int) int {
	for i < len(p.b) && isWS(p.b[i]) {
		i++
	}
	return i
}

func (p *refParser) array(pos int, depth int) (*JVal, int, int, int) {
	b := p.b
	v := &JVal{Kind: 'a', Arr: []*JVal{}}
	i := p.skipWS(pos + 1)
	if i >= len(b) {
		return nil, i, pTruncated, i
	}
	if b[i] == ']' {
		return v, i + 1, pOK, 0
	}
	for {
		e, end, st, at := p.value(i, depth+1, false)
		if st != pOK {
			return nil, end, st, at
		}
		v.Arr = append(v.Arr, e)
		i = p.skipWS(end)
		if i >= len(b) {
			return nil, i, pTruncated, i
		}
		if b[i] == ',' {
			i = p.skipWS(i + 1)
			if i >= len(b) {
				return nil, i, pTruncated, i
			}
			continue
		}
		if b[i] == ']' {
			return v, i + 1, pOK, 0
		}
		return nil, i, pMalformed, i
	}
}

func (p *refParser) object(pos int, depth int) (*JVal, int, int, int) {
	b := p.b
	v := &JVal{Kind: 'o'}
	i := p.skipWS(pos + 1)
	if i >= len(b) {
		return nil, i, pTruncated, i
	}
	if b[i] == '}' {
		return v, i + 1, pOK, 0
	}
	for {
		if b[i] != '"' {
			return nil, i, pMalformed, i
		}
		k, end, st, at := p.str(i)
		if st != pOK {
			return nil, end, st, at
		}
		i = p.skipWS(end)
		if i >= len(b) {
			return nil, i, pTruncated, i
		}
		if b[i] != ':' {
			return nil, i, pMalformed, i
		}
		i = p.skipWS(i + 1)
		if i >= len(b) {
			return nil, i, pTruncated, i
		}
		e, end2, st2, at2 := p.value(i, depth+1, false)
		if st2 != pOK {
			return nil, end2, st2, at2
		}
		for _, old := range v.Keys {
			if old == k {
				p.dubious = true // duplicate key: which one wins is unspecified
			}
		}
		v.Keys = append(v.Keys, k)
		v.Vals = append(v.Vals, e)
		i = p.skipWS(end2)
		if i >= len(b) {
			return nil, i, pTruncated, i
		}
		if b[i] == ',' {
			i = p.skipWS(i + 1)
			if i >= len(b) {
				return nil, i, pTruncated, i
			}
			continue
		}
		if b[i] == '}' {
			return v, i + 1, pOK, 0
		}
		return nil, i, pMalformed, i
	}
}

// Get returns the member of an object value, or nil.
func (v *JVal) Get(k string) *JVal {
	if v == nil || v.Kind != 'o' {
		return nil
	}
	var r *JVal
	for i, kk := range v.Keys {
		if kk == k {
			r = v.Vals[i]
		}
	}
	return r
}
