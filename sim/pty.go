package main

// A pseudo-terminal for the binary's standard output (Linux): the master end
// is read by the harness, output post-processing is switched off so that the
// bytes arrive as written.

import (
	"fmt"
	"os"
	"syscall"
	"unsafe"
)

func ioctlPtr(fd uintptr, req uintptr, p unsafe.Pointer) error {
	if _, _, e := syscall.Syscall(syscall.SYS_IOCTL, fd, req, uintptr(p)); e != 0 {
		return e
	}
	return nil
}

func openPty() (master, slave *os.File, err error) {
	mfd, err := syscall.Open("/dev/ptmx", syscall.O_RDWR|syscall.O_NOCTTY|syscall.O_CLOEXEC, 0)
	if err != nil {
		return nil, nil, err
	}
	var unlock int32
	if err = ioctlPtr(uintptr(mfd), syscall.TIOCSPTLCK, unsafe.Pointer(&unlock)); err != nil {
		syscall.Close(mfd)
		return nil, nil, err
	}
	var n uint32
	if err = ioctlPtr(uintptr(mfd), syscall.TIOCGPTN, unsafe.Pointer(&n)); err != nil {
		syscall.Close(mfd)
		return nil, nil, err
	}
	sfd, err := syscall.Open(fmt.Sprintf("/dev/pts/%d", n), syscall.O_RDWR|syscall.O_NOCTTY|syscall.O_CLOEXEC, 0)
	if err != nil {
		syscall.Close(mfd)
		return nil, nil, err
	}
	var tio syscall.Termios
	if err = ioctlPtr(uintptr(sfd), syscall.TCGETS, unsafe.Pointer(&tio)); err == nil {
		tio.Oflag &^= syscall.OPOST
		err = ioctlPtr(uintptr(sfd), syscall.TCSETS, unsafe.Pointer(&tio))
	}
	if err != nil {
		syscall.Close(mfd)
		syscall.Close(sfd)
		return nil, nil, err
	}
	// plain blocking descriptors (not the poller): the reader goroutine blocks in read(2)
	return os.NewFile(uintptr(mfd), "pty-master"), os.NewFile(uintptr(sfd), "pty-slave"), nil
}
