package main

// C08, wide scopes: the binding and scope rules with very many distinct names
// live at once. One run holds tens of thousands of differently-named globals,
// a function whose parameter list is hundreds of names wide, a match pattern
// binding a hundred names, and a callee that creates a thousand locals. The
// model is the statement itself: a name denotes one variable; two different
// names never denote the same one; argument i binds parameter i; parameters,
// callee locals and match-bound names are unknown afterwards; globals keep
// the values assigned to them.

import (
	"fmt"
	"strconv"
	"strings"
)

type WideCase struct {
	Seed    uint64   `json:"seed"`
	Globals int      `json:"globals"`
	Params  int      `json:"params"`
	Binds   int      `json:"binds"`
	Locals  int      `json:"locals"`
	Names   []string `json:"names,omitempty"` // explicit names (after minimisation); else derived from Seed
}

var wideReserved = map[string]bool{"BEGIN": true, "END": true, "BEGINFILE": true, "ENDFILE": true, "function": true, "return": true, "print": true, "printf": true, "next": true, "exit": true, "match": true, "while": true, "break": true, "continue": true, "unknown": true, "number": true, "string": true, "array": true, "object": true, "false": true, "true": true, "null": true, "regex": true, "unset": true, "json": true, "wide": true, "mkloc": true, "seen": true, "bool": true, "else": true}

func (c *WideCase) names() []string {
	if c.Names != nil {
		return c.Names
	}
	total := c.Globals + c.Params + c.Binds + c.Locals
	t := NewTape(c.Seed)
	seen := make(map[string]bool, total)
	out := make([]string, 0, total)
	for len(out) < total {
		l := 4 + t.Draw(4)
		b := make([]byte, l)
		for i := range b {
			b[i] = byte('a' + t.Draw(26))
		}
		if t.Chance(1, 8) {
			b[0] = byte('A' + t.Draw(26))
		}
		if t.Chance(1, 8) {
			b[l-1] = byte('0' + t.Draw(10))
		}
		if t.Chance(1, 16) {
			b[1+t.Draw(l-2)] = '_'
		}
		s := string(b)
		if seen[s] || wideReserved[s] {
			continue
		}
		seen[s] = true
		out = append(out, s)
	}
	return out
}

// split the name list into its four roles; explicit (minimised) lists keep the proportions workable
func (c *WideCase) roles() (globals, params, binds, locals []string) {
	ns := c.names()
	cut := func(n int) []string {
		if n > len(ns) {
			n = len(ns)
		}
		r := ns[:n]
		ns = ns[n:]
		return r
	}
	globals = cut(c.Globals)
	params = cut(c.Params)
	binds = cut(c.Binds)
	locals = cut(c.Locals)
	return
}

func (c *WideCase) program() (string, []string) {
	globals, params, binds, locals := c.roles()
	var sb strings.Builder
	var want []string
	// wide(p1..pk) reports every parameter in order and a few globals
	sb.WriteString("function wide(" + strings.Join(params, ", ") + ") {\n print \"params\"")
	for _, p := range params {
		sb.WriteString(", " + p)
	}
	sb.WriteString("\n")
	for i, p := range params {
		if i%3 == 0 {
			fmt.Fprintf(&sb, " %s = \"clobbered\"\n", p)
		}
	}
	sb.WriteString(" return " + strconv.Itoa(len(params)) + "\n}\n")
	sb.WriteString("function mkloc() {\n")
	for i, l := range locals {
		fmt.Fprintf(&sb, " %s = %d\n", l, -i-1)
	}
	sb.WriteString(" bad = 0\n")
	for i, l := range locals {
		fmt.Fprintf(&sb, " if (%s != %d) { bad++\n print \"local\", \"%s\", %s }\n", l, -i-1, l, l)
	}
	sb.WriteString(" return bad\n}\n")
	sb.WriteString("BEGIN {\n")
	for i, g := range globals {
		fmt.Fprintf(&sb, " %s = %d\n", g, i+1)
	}
	// the call: argument i is 1000+i
	sb.WriteString(" print \"ret\", wide(")
	for i := range params {
		if i > 0 {
			sb.WriteString(", ")
		}
		sb.WriteString(strconv.Itoa(1000 + i))
	}
	sb.WriteString(")\n")
	line := "params"
	for i := range params {
		line += " " + strconv.Itoa(1000+i)
	}
	want = append(want, line, "ret "+strconv.Itoa(len(params)))
	sb.WriteString(" print \"locals\", mkloc()\n")
	want = append(want, "locals 0")
	if len(binds) > 0 {
		sb.WriteString(" match ([")
		for i := range binds {
			if i > 0 {
				sb.WriteString(", ")
			}
			sb.WriteString(strconv.Itoa(5000 + i))
		}
		sb.WriteString("]) { [" + strings.Join(binds, ", ") + "] => { print \"binds\"")
		for _, b := range binds {
			sb.WriteString(", " + b)
		}
		sb.WriteString(" } }\n")
		line = "binds"
		for i := range binds {
			line += " " + strconv.Itoa(5000+i)
		}
		want = append(want, line)
	}
	sb.WriteString(" seen = 0\n")
	for i, g := range globals {
		fmt.Fprintf(&sb, " if (%s != %d) { seen++\n print \"global\", \"%s\", %s }\n", g, i+1, g, g)
	}
	sb.WriteString(" print \"globals-wrong\", seen\n")
	want = append(want, "globals-wrong 0")
	sb.WriteString(" seen = 0\n")
	for _, group := range [][]string{params, binds, locals} {
		for _, n := range group {
			fmt.Fprintf(&sb, " if (!(%s is unknown)) { seen++\n print \"visible\", \"%s\" }\n", n, n)
		}
	}
	sb.WriteString(" print \"still-visible\", seen\n}\n")
	want = append(want, "still-visible 0")
	return sb.String(), want
}

func runWideCase(c *WideCase, keep bool) Outcome {
	log := newEventLog(keep)
	o := Outcome{Probes: map[string]int{}}
	prog, want := c.program()
	kind, msg, stdout, depth := execCall(prog, []byte(""))
	log.add('C', 0, "RUN names=%d kind=%s msg=%q depth=%d stdout_len=%d", len(c.names()), kind, msg, depth, len(stdout))
	o.Nontrivial = true
	o.Steps = len(c.names())
	o.Shape = fmt.Sprintf("g%d p%d b%d l%d", bucketLen(c.Globals), bucketLen(c.Params), bucketLen(c.Binds), bucketLen(c.Locals))
	o.Probes["names_live_in_one_run"] += len(c.names())
	finish := func() Outcome {
		o.LogHash, o.Log = log.Hash(), log.lines
		return o
	}
	if keep {
		log.lines = append(log.lines, "  program (head):\n"+truncate(prog, 2000), "  stdout (head): "+truncate(stdout, 800))
	}
	if kind == "panic" || kind == "foreign" {
		o.Class, o.Msg = "panic", kind+": "+msg
		return finish()
	}
	if kind != "success" {
		o.Class, o.Msg = "history-killed-run", fmt.Sprintf("a program with %d distinct names ended in %s: %s", len(c.names()), kind, msg)
		return finish()
	}
	got := strings.Split(strings.TrimSuffix(stdout, "\n"), "\n")
	if !equalLines(got, want) {
		o.Class, o.Msg = "call-result-mismatch", diffLines(want, got)
	}
	return finish()
}

func genWideCase(t *Tape, tier string) *WideCase {
	c := &WideCase{Seed: uint64(t.Draw(1<<30))<<20 | uint64(t.Draw(1<<20))}
	switch t.Weighted(2, 2, 1) {
	case 0:
		c.Globals, c.Params, c.Binds, c.Locals = 200+t.Draw(2000), 1+t.Draw(300), t.Draw(100), t.Draw(500)
	case 1:
		c.Globals, c.Params, c.Binds, c.Locals = 20000+t.Draw(40000), 50+t.Draw(400), 10+t.Draw(100), 1000+t.Draw(2000)
	default:
		c.Globals, c.Params, c.Binds, c.Locals = 120000+t.Draw(60000), 200+t.Draw(300), 50+t.Draw(100), 3000+t.Draw(3000)
	}
	return c
}

func simplifyWide(w *Workload, c any) []func() any {
	wc := c.(*WideCase)
	var out []func() any
	explicit := func() *WideCase {
		g, p, b, l := wc.roles()
		n := &WideCase{Globals: len(g), Params: len(p), Binds: len(b), Locals: len(l)}
		n.Names = append(append(append(append([]string{}, g...), p...), b...), l...)
		return n
	}
	// drop a block of names from one role
	type role struct{ lo, n int }
	g, p, b, l := wc.roles()
	rs := []role{{0, len(g)}, {len(g), len(p)}, {len(g) + len(p), len(b)}, {len(g) + len(p) + len(b), len(l)}}
	for ri, r := range rs {
		ri, r := ri, r
		for _, pl := range dropPlans(r.n) {
			pl := pl
			out = append(out, func() any {
				n := explicit()
				n.Names = append(append([]string{}, n.Names[:r.lo+pl[0]]...), n.Names[r.lo+pl[1]:]...)
				d := pl[1] - pl[0]
				switch ri {
				case 0:
					n.Globals -= d
				case 1:
					n.Params -= d
				case 2:
					n.Binds -= d
				default:
					n.Locals -= d
				}
				return n
			})
		}
	}
	return out
}

// ---------------------------------------------------------------- counted gaps
//
// "The number of calls, matches or next statements executed so far never
// changes later behaviour": a function is called, an exactly counted number of
// other frames is pushed and popped (calls, matches with expression and block
// bodies, next inside a function, nested calls), and the function is called
// again. The counts sit around powers of two, where counters, ids and tables
// of any fixed width wrap.

type GapCase struct {
	Filler int `json:"filler"` // 0 call, 1 match with an expression body, 2 match with a block body, 3 next inside a function, 4 a call inside a call, 5 mixed
	K      int `json:"k"`      // number of filler elements
	Seed   int `json:"seed"`   // mixed fillers: drawn from this
}

const gapProgram = `function first(p) { return p }
function pickm(v) { return match (v) { [ga, gb] => ga } }
function pickb(v) { match (v) { [gc, gd] => { return gc } }
 return "none" }
function nop() { }
function two() { nop() }
function fnext() { next }
BEGIN { print "B", first("old"), pickm(["oldm", 1]), pickb(["oldb", 1]) }
$ == 0 { nop() }
$ == 1 { gx = match ($) { fm => fm } }
$ == 2 { match ($) { fq => { gy = fq } } }
$ == 3 { fnext() }
$ == 4 { two() }
END { print "E", first("new"), pickm(["newm", 2]), pickb(["newb", 2]), p is unknown, v is unknown, ga is unknown, gb is unknown, gc is unknown, gd is unknown, fm is unknown, fq is unknown }
`

func (c *GapCase) input() []byte {
	var sb strings.Builder
	sb.Grow(2*c.K + 2)
	sb.WriteByte('[')
	var t *Tape
	if c.Filler >= 5 {
		t = NewTape(uint64(c.Seed))
	}
	for i := 0; i < c.K; i++ {
		if i > 0 {
			sb.WriteByte(',')
		}
		f := c.Filler
		if t != nil {
			f = t.Draw(5)
		}
		sb.WriteByte(byte('0' + f))
	}
	sb.WriteByte(']')
	return []byte(sb.String())
}

func runGapCase(c *GapCase, keep bool) Outcome {
	log := newEventLog(keep)
	o := Outcome{Probes: map[string]int{}}
	kind, msg, stdout, depth := execCall(gapProgram, c.input())
	log.add('C', 0, "RUN filler=%d k=%d kind=%s msg=%q depth=%d stdout=%q", c.Filler, c.K, kind, msg, depth, truncate(stdout, 300))
	o.Nontrivial = c.K > 0
	o.Steps = c.K
	o.Shape = fmt.Sprintf("gap f%d k%d", c.Filler, c.K)
	o.Probes["frames_between_two_calls"] += c.K
	finish := func() Outcome {
		o.LogHash, o.Log = log.Hash(), log.lines
		return o
	}
	if kind == "panic" || kind == "foreign" {
		o.Class, o.Msg = "panic", kind+": "+msg
		return finish()
	}
	if kind != "success" {
		o.Class, o.Msg = "history-killed-run", fmt.Sprintf("%d completed filler operations ended in %s: %s", c.K, kind, msg)
		return finish()
	}
	want := "B old oldm oldb\nE new newm newb true true true true true true true true\n"
	if stdout != want {
		o.Class = "call-result-mismatch"
		o.Msg = fmt.Sprintf("with %d completed operations (filler kind %d) between the two calls:\n expected %q\n observed %q", c.K, c.Filler, want, stdout)
	}
	if depth != 0 && o.Class == "" {
		o.Class, o.Msg = "frame-residue", fmt.Sprintf("after a normally completed run the frame stack is %d deep", depth)
	}
	return finish()
}

var gapPowers = []int{8, 12, 15, 16, 17}

func genGapCase(i int, t *Tape, tier string) *GapCase {
	if tier == "quick" {
		// enumerated: 5 powers x offsets -8..8 x 6 fillers = 510
		p := gapPowers[i%5]
		d := (i/5)%17 - 8
		f := (i / 85) % 6
		return &GapCase{Filler: f, K: (1 << uint(p)) + d, Seed: i}
	}
	p := 7 + t.Draw(12)
	d := t.Draw(81) - 40
	return &GapCase{Filler: t.Draw(6), K: (1 << uint(p)) + d, Seed: t.Draw(1 << 30)}
}
