package main

// Generators for the stream world: JSON value streams (as text, so that
// escapes and whitespace are under the generator's control), trace programs,
// selectors, read schedules and fault plans. Convention: draw 0 = simplest.

import (
	"fmt"
	"strings"
)

type streamGen struct {
	t       *Tape
	nextID  int
	profile int  // 0 numbers, 1 scalars, 2 objects, 3 mixed
	rich    bool // object roots carry items/a/b members (for selectors)
	wild    bool // also numbers outside float64 (the schedule oracles leave their outcome open: C01 only)
}

func (g *streamGen) id() int { g.nextID++; return g.nextID }

var strPieces = []string{"a", "b", "xy", "Q", " ", "é", "日本", "😀", `\"`, `\\`, `\/`, `\t`, `é`, `😀`, "z9", "_", "#", "'", "//", "/*", "*/", "http://h/p", `\u0041`, `\n`, `\"`, "]", "}", ","}

func (g *streamGen) stringText() string {
	n := g.t.Draw(4)
	var sb strings.Builder
	sb.WriteByte('"')
	sb.WriteString(fmt.Sprintf("s%d", g.id()))
	for i := 0; i < n; i++ {
		sb.WriteString(strPieces[g.t.Draw(len(strPieces))])
	}
	sb.WriteByte('"')
	return sb.String()
}

func (g *streamGen) numberText() string {
	if g.wild && g.t.Chance(1, 12) {
		return []string{"1e999", "-1e400", "1e-999", "123456789012345678901234567890", "0.1e+309", "-0", "1E400"}[g.t.Draw(7)]
	}
	id := g.id()
	switch g.t.Weighted(12, 2, 2, 1, 1) {
	case 0:
		return fmt.Sprint(id)
	case 1:
		return fmt.Sprintf("-%d", id)
	case 2:
		return fmt.Sprintf("%d.5", id)
	case 3:
		return fmt.Sprintf("%de1", id)
	default:
		return fmt.Sprintf("%d.25E+1", id)
	}
}

func (g *streamGen) scalarText() string {
	if g.profile == 0 {
		return g.numberText()
	}
	switch g.t.Weighted(6, 4, 1, 1, 1) {
	case 0:
		return g.numberText()
	case 1:
		return g.stringText()
	case 2:
		return "true"
	case 3:
		return "false"
	default:
		return "null"
	}
}

func (g *streamGen) sp() string {
	switch g.t.Weighted(6, 3, 1, 1) {
	case 0:
		return ""
	case 1:
		return " "
	case 2:
		return "\n  "
	default:
		return "\t"
	}
}

func (g *streamGen) objectText(rich bool) string {
	t := "false"
	if g.t.Chance(1, 2) {
		t = "true"
	}
	var sb strings.Builder
	sb.WriteString("{" + g.sp() + `"id"` + g.sp() + ":" + g.sp() + fmt.Sprint(g.id()) + g.sp() + "," + g.sp() + `"t"` + g.sp() + ":" + t)
	if rich {
		for _, k := range []string{"items", "a", "b"} {
			if g.t.Chance(2, 3) {
				sb.WriteString("," + g.sp() + `"` + k + `":` + g.sp() + g.arrayText(false))
			}
		}
	}
	sb.WriteString(g.sp() + "}")
	return sb.String()
}

func (g *streamGen) elemText(nest bool) string {
	switch g.profile {
	case 0, 1:
		return g.scalarText()
	case 2:
		return g.objectText(false)
	}
	switch g.t.Weighted(4, 3, 1) {
	case 0:
		return g.scalarText()
	case 1:
		return g.objectText(false)
	default:
		if nest {
			return g.arrayText(false)
		}
		return g.scalarText()
	}
}

func (g *streamGen) arrayText(nest bool) string {
	n := g.t.Draw(6)
	var sb strings.Builder
	sb.WriteString("[" + g.sp())
	for i := 0; i < n; i++ {
		if i > 0 {
			sb.WriteString("," + g.sp())
		}
		sb.WriteString(g.elemText(nest))
		sb.WriteString(g.sp())
	}
	sb.WriteString("]")
	return sb.String()
}

// topValueText: a top-level value. kind: 0 array, 1 scalar, 2 object, 3 null
func (g *streamGen) topValueText() (string, bool) {
	w := []int{6, 2, 2, 1}
	if g.profile == 0 || g.profile == 1 {
		w = []int{6, 3, 0, 1}
	}
	if g.rich {
		w = []int{3, 1, 6, 1}
	}
	switch g.t.Weighted(w...) {
	case 0:
		return g.arrayText(true), false
	case 1:
		s := g.scalarText()
		return s, s[0] != '"'
	case 2:
		return g.objectText(g.rich), false
	default:
		return "null", true
	}
}

var topSeps = []string{"\n", " ", "", "\t", "\r\n", "  \n ", "\n\n"}

// fileText generates the bytes of one input file holding nvals values.
func (g *streamGen) fileText(nvals int) []byte {
	var sb strings.Builder
	if g.t.Chance(1, 5) {
		sb.WriteString(topSeps[g.t.Draw(len(topSeps))])
	}
	prevBare := false
	for i := 0; i < nvals; i++ {
		v, bare := g.topValueText()
		if i > 0 {
			sep := topSeps[g.t.Draw(len(topSeps))]
			if sep == "" && prevBare && bare {
				sep = " "
			}
			if sep == "" && prevBare && (v[0] == '-' || (v[0] >= '0' && v[0] <= '9')) {
				sep = " "
			}
			sb.WriteString(sep)
		}
		sb.WriteString(v)
		prevBare = bare
	}
	if g.t.Chance(1, 2) {
		sb.WriteString(topSeps[g.t.Draw(len(topSeps))])
	}
	return []byte(sb.String())
}

var constPats = []struct {
	text  string
	truth bool
}{{"true", true}, {"false", false}, {"1", true}, {"0", false}, {`"x"`, true}, {`""`, false}, {"null", false},
	// regex literals containing comment and quote characters: the rest of the program must still be read as written
	{"0.0", false}, {"00", false}, {"0.00", false}, {"1.0", true}, {"0.5", true}, {"010", true}, {"-0", false}, {"!0.0", true}, {"' '", true},
	{`"zz" ~ /#'"[0-9]+/`, false}, {`"a#b" ~ /a#b/`, true}, {`"it's" ~ /'s$/`, true}, {`"q" !~ /"q"/`, true}, {`'#' ~ "#"`, true}}

func (g *streamGen) pattern() *Pat {
	t := g.t
	w := []int{4, 3, 2, 2, 0}
	if g.profile == 0 {
		w = []int{3, 2, 1, 1, 4}
	}
	switch t.Weighted(w...) {
	case 0:
		return nil
	case 1:
		c := constPats[t.Draw(len(constPats))]
		return &Pat{Kind: "const", Text: c.text, Truth: c.truth}
	case 2:
		return &Pat{Kind: "t"}
	case 3:
		return &Pat{Kind: "nott"}
	default:
		return &Pat{Kind: "gt", K: t.Draw(g.nextID + 2)}
	}
}

func (g *streamGen) signal(kind string, allowNext bool, maxAt int) *Sig {
	t := g.t
	s := &Sig{What: "exit", Pos: "after"}
	if allowNext && t.Chance(2, 3) {
		s.What = "next"
	}
	if t.Chance(1, 2) {
		s.Pos = "before"
	}
	if t.Chance(3, 4) {
		s.At = 1 + t.Draw(maxAt)
	}
	switch t.Weighted(6, 2, 2, 1, 1, 1, 1, 1, 1, 1, 1, 1) {
	case 10:
		s.Via = "ifelse"
	case 11:
		s.Via = "elseif"
	case 9:
		s.Via = "forinit"
	case 7:
		s.Via = "forpost"
	case 8:
		s.Via = "whilecond"
	case 1:
		s.Via = "func"
	case 2:
		s.Via = "if"
	case 3:
		s.Via = "forin"
	case 4:
		s.Via = "while"
	case 5:
		s.Via = "match"
	case 6:
		s.Via = "func2"
	}
	return s
}

var selectorPool = []string{"$", "$.items", "$.a", "$.b", "$[0]", "$[-1]", "$[1]", "$.items[0]", "$.a[-1]", "$.zz"}

// traceProgram draws a trace program. richness: 0 small .. 2 many rules.
func (g *streamGen) traceProgram(noBodyOK bool, sigProb int, rerootOK bool, setFileOK bool) *TProg {
	t := g.t
	p := &TProg{FuncsFirst: t.Chance(1, 2), Semis: t.Chance(1, 4), ViaFn: t.Weighted(4, 1, 1)}
	counts := map[string]int{}
	kinds := []string{"PATTERN", "BEGIN", "END", "BEGINFILE", "ENDFILE"}
	n := 1 + t.Draw(9)
	maxSpecial, maxPattern := 3, 4
	if t.Chance(1, 8) {
		// a long program: many rules of every kind, interleaved
		n = 13 + t.Draw(20)
		maxSpecial, maxPattern = 9, 12
	}
	tag := 0
	var rules []TRule
	for i := 0; i < n; i++ {
		k := kinds[t.Weighted(5, 2, 2, 2, 2)]
		if counts[k] >= maxSpecial {
			k = "PATTERN"
			if counts[k] >= maxPattern {
				continue
			}
		}
		counts[k]++
		tag++
		r := TRule{Kind: k, Tag: fmt.Sprintf("r%d", tag)}
		if k == "PATTERN" {
			r.Pat = g.pattern()
			if noBodyOK && r.Pat != nil && t.Chance(1, 5) {
				r.NoBody = true
			}
		}
		if (k == "BEGIN" || k == "END") && t.Chance(1, 4) {
			r.SetDollar = true
		}
		if (k == "BEGIN" || k == "END" || (k == "BEGINFILE" && noBodyOK)) && t.Chance(1, 8) {
			r.NoBody = true
		}
		if k == "ENDFILE" && setFileOK && t.Chance(1, 5) {
			r.SetFile = true
		}
		if k == "BEGINFILE" && rerootOK && t.Chance(1, 4) {
			r.Reroot = selectorPool[t.Draw(len(selectorPool))]
		}
		if !r.NoBody && t.Chance(sigProb, 100) {
			maxAt := 6
			if k == "BEGIN" || k == "END" {
				maxAt = 1
			}
			if k == "PATTERN" || t.Chance(1, 3) {
				r.Sig = g.signal(k, k == "PATTERN", maxAt)
			}
		}
		rules = append(rules, r)
	}
	// the flag-setting BEGINFILE rule goes after every other BEGINFILE rule; it is
	// only needed when a pattern rule with a body exists (so programs made only of
	// BEGIN/END rules do occur)
	needFlag := false
	for _, r := range rules {
		if r.Kind == "PATTERN" && !r.NoBody {
			needFlag = true
		}
	}
	if !needFlag && t.Chance(1, 2) {
		p.Rules = rules
		fixNoBody(p)
		return p
	}
	lastBF := -1
	for i, r := range rules {
		if r.Kind == "BEGINFILE" {
			lastBF = i
		}
	}
	tag++
	flag := TRule{Kind: "BEGINFILE", Tag: fmt.Sprintf("r%d", tag), SetFlag: true}
	if lastBF < 0 {
		pos := t.Draw(len(rules) + 1)
		rules = append(rules[:pos], append([]TRule{flag}, rules[pos:]...)...)
	} else {
		rules = append(rules[:lastBF+1], append([]TRule{flag}, rules[lastBF+1:]...)...)
	}
	p.Rules = rules
	fixNoBody(p)
	return p
}

// a body-less rule must not be followed by a rule whose text starts with
// '{' or '!' (the parser would read it as this rule's body / an operator)
func fixNoBody(p *TProg) {
	rules := p.Rules
	for i := range rules {
		if !rules[i].NoBody {
			continue
		}
		if rules[i].Pat == nil && rules[i].Kind == "PATTERN" {
			rules[i].NoBody = false
			continue
		}
		if i+1 < len(rules) {
			nx := rules[i+1]
			if nx.Kind == "PATTERN" {
				// the next rule's text must not start with something the parser
				// would read as this rule's body or as an operator applied to its pattern
				first := byte('{')
				if nx.Pat != nil {
					first = nx.Pat.render()[0]
				}
				if strings.IndexByte("{!-+([./*%<>=~&|", first) >= 0 {
					rules[i].NoBody = false
				}
			}
		}
	}
}

// schedule draws a read schedule for a stream of n bytes.
func (g *streamGen) schedule(n int, ref *RefResult) []int {
	t := g.t
	var s []int
	switch t.Weighted(3, 3, 3, 2, 3, 2, 1) {
	case 6: // an empty read before every byte or two: hundreds of empty reads in one input
		for left := n; left > 0; {
			c := 1 + t.Draw(2)
			s = append(s, 0, c)
			left -= c
		}
		return s
	case 0: // canonical: everything in one read
		return nil
	case 1: // one byte per read
		for i := 0; i < n; i++ {
			s = append(s, 1)
		}
	case 2: // small random chunks
		for left := n; left > 0; {
			c := 1 + t.Draw(8)
			s = append(s, c)
			left -= c
		}
	case 3: // chunks with zero-byte reads sprinkled in
		for left := n; left > 0; {
			if t.Chance(1, 4) {
				s = append(s, 0)
				if t.Chance(1, 2) {
					s = append(s, 0)
				}
			}
			c := 1 + t.Draw(16)
			s = append(s, c)
			left -= c
		}
	case 4: // cut at value boundaries: exactly at the end, one past, one before
		pos := 0
		for _, v := range ref.Values {
			cut := v.End + t.Draw(3) - 1
			if cut > pos && cut <= n {
				s = append(s, cut-pos)
				pos = cut
			}
		}
	default: // large geometric chunks
		for left := n; left > 0; {
			c := 1 << uint(t.Draw(11))
			s = append(s, c)
			left -= c
		}
	}
	return s
}

var strayTexts = []string{"]", "}", ",", ":", "x", "\x00", "\xef\xbb\xbf", "nul", "]]", "\"", "tru", "-", "\x0c"}
var corruptBytes = []byte{'"', '\\', '{', '}', '[', ']', ',', ':', '0', '9', 'x', 'e', ' ', 0, 0xff, 0x80, '\n', '-', '.', 't'}

// fault draws a fault plan for file fi with visible length n.
func (g *streamGen) fault(fi int, data []byte, ref *RefResult, kinds []string) *Fault {
	t := g.t
	n := len(data)
	kind := kinds[t.Draw(len(kinds))]
	f := &Fault{Kind: kind, File: fi}
	// biased offset: value end, one past, value start, inside a value, anywhere
	off := func() int {
		if len(ref.Values) > 0 && t.Chance(3, 5) {
			v := ref.Values[t.Draw(len(ref.Values))]
			switch t.Weighted(3, 2, 2, 3) {
			case 0:
				return v.End
			case 1:
				return v.End + 1
			case 2:
				return v.Start
			default:
				if v.End-v.Start > 1 {
					return v.Start + 1 + t.Draw(v.End-v.Start-1)
				}
				return v.Start
			}
		}
		return t.Draw(n + 1)
	}
	switch kind {
	case "TRUNC":
		f.Off = off()
	case "EIO":
		f.Off = off()
		f.WithData = t.Chance(1, 2)
		f.Once = t.Chance(1, 4)
		f.ErrKind = []string{"", "", "", "wrapped-eof", "unexpected-eof", "wrapped-unexpected", "text-eof", "closed-pipe", "no-progress", "path-eof", "timeout", "eagain", "eintr"}[t.Draw(13)]
	case "CORRUPT":
		f.Off = off()
		switch t.Weighted(4, 1, 1) {
		case 0:
			f.How = "replace"
			f.Byte = int(corruptBytes[t.Draw(len(corruptBytes))])
			if t.Chance(1, 2) {
				f.Byte = t.Draw(256)
			}
		case 1:
			f.How = "delete"
		default:
			f.How = "dup"
		}
	case "STRAY":
		// between values: before the first, between two, after the last
		if len(ref.Values) > 0 {
			j := t.Draw(len(ref.Values) + 1)
			if j == len(ref.Values) {
				f.Off = ref.Values[j-1].End
			} else {
				f.Off = ref.Values[j].Start
			}
		} else {
			f.Off = t.Draw(n + 1)
		}
		f.Text = QBytes(strayTexts[t.Draw(len(strayTexts))])
	}
	if f.Off > n {
		f.Off = n
	}
	return f
}

type streamGenOpts struct {
	mode      string
	maxFiles  int
	maxVals   int
	selectors bool
	faults    []string // nil: fault-free
	faultProb int      // percent
	benign    bool     // only benign schedules (C02)
	sigProb   int
	bigProb   int // percent chance of a value larger than the decoder's initial buffer
	bigMax    int // upper bound on the number of elements of such a value (0: 550)
}

var fileNames = []string{"a.json", "b.json", "dir/c.json", "a.json", "<x>"}

func genStreamCase(t *Tape, o streamGenOpts) *StreamCase {
	g := &streamGen{t: t, wild: o.mode == "c01"}
	g.profile = t.Weighted(3, 3, 3, 3)
	useSel := o.selectors && t.Chance(1, 3)
	g.rich = useSel || t.Chance(1, 6)
	c := &StreamCase{Mode: o.mode}
	nfiles := t.Draw(o.maxFiles + 1)
	if nfiles == 0 && t.Chance(3, 4) {
		nfiles = 1
	}
	for i := 0; i < nfiles; i++ {
		nv := t.Draw(o.maxVals + 1)
		data := g.fileText(nv)
		if o.bigProb > 0 && t.Chance(o.bigProb, 100) {
			// a value larger than the decoder's initial buffer
			var sb strings.Builder
			sb.WriteString("[")
			m := 150 + t.Draw(400)
			if o.bigMax > 550 && t.Chance(1, 6) {
				// several buffer doublings: up to ~64 KiB
				m = 550 + t.Draw(o.bigMax-550)
			}
			for k := 0; k < m; k++ {
				if k > 0 {
					sb.WriteString(",")
				}
				sb.WriteString(fmt.Sprint(g.id()))
			}
			sb.WriteString("]\n")
			data = append(data, []byte("\n"+sb.String())...)
		}
		name := fileNames[t.Draw(len(fileNames))]
		if t.Chance(1, 2) {
			name = fmt.Sprintf("f%d.json", i)
		}
		c.Files = append(c.Files, SimFile{Name: name, Data: data})
	}
	if useSel {
		ns := 1 + t.Draw(3)
		for i := 0; i < ns; i++ {
			c.Selectors = append(c.Selectors, selectorPool[t.Draw(len(selectorPool))])
		}
	}
	// body-less rules print $ itself: only where every element is a scalar or
	// an array of scalars (profiles 0 and 1 without rich objects)
	noBodyOK := (g.profile == 0 || g.profile == 1) && !g.rich
	// re-rooting BEGINFILE rules only without -r selectors: assigning to a $
	// that a selector produced is not described by the statement or the README
	// $file is only overwritten (by an ENDFILE rule) when there is at most one
	// selector: whether it is re-published per value or per selector root is not fixed
	c.Prog = g.traceProgram(noBodyOK, o.sigProb, !useSel && (g.rich || t.Chance(1, 8)), len(c.Selectors) <= 1)
	c.ProgText = c.Prog.Render()
	// selectors / reroots that leave the model domain on this data are replaced by "$"
	sanitizeSelectors(c)
	// fault plan first (schedules are drawn against the visible bytes)
	if len(o.faults) > 0 && len(c.Files) > 0 && t.Chance(o.faultProb, 100) {
		fi := t.Draw(len(c.Files))
		ref := ScanStream(c.Files[fi].Data)
		c.Fault = g.fault(fi, c.Files[fi].Data, &ref, o.faults)
	}
	for i := range c.Files {
		data, _ := c.Visible(i)
		ref := ScanStream(data)
		if o.benign {
			if t.Chance(1, 2) {
				c.Files[i].Sched = nil
			} else {
				c.Files[i].Sched = g.schedule(len(data), &ref)
			}
		} else {
			c.Files[i].Sched = g.schedule(len(data), &ref)
		}
		c.Files[i].EOFWithData = t.Chance(1, 3)
	}
	if o.mode == "c01" && t.Chance(1, 5) {
		kinds := []string{"epipe", "enospc", "short-write", "closed-pipe", "plain", "eof", "wrapped-epipe"}
		c.WFault = &WFault{At: t.Draw(6), ErrKind: kinds[t.Draw(len(kinds))], Short: t.Chance(1, 3)}
	}
	return c
}

// sanitizeSelectors replaces selectors and reroots that the model cannot
// evaluate on the (fault-free) data by the identity selector, so that
// generated fault-free cases always stay inside the model's domain.
func sanitizeSelectors(c *StreamCase) {
	var files []ModelFile
	for i := range c.Files {
		ref := ScanStream(c.Files[i].Data)
		var vals []*JVal
		for _, v := range ref.Values {
			vals = append(vals, v.V)
		}
		files = append(files, ModelFile{c.Files[i].Name, vals})
	}
	for round := 0; round < 8; round++ {
		m := RunModel(c.Prog, files, c.Selectors, true)
		if m.OK {
			return
		}
		// drop the offending feature class, simplest first
		switch {
		case strings.HasPrefix(m.Why, "selector"):
			for i := range c.Selectors {
				c.Selectors[i] = "$"
			}
		case strings.HasPrefix(m.Why, "reroot"):
			for i := range c.Prog.Rules {
				if c.Prog.Rules[i].Reroot != "" {
					c.Prog.Rules[i].Reroot = "$"
				}
			}
		case strings.HasPrefix(m.Why, "bare print"):
			for i := range c.Prog.Rules {
				c.Prog.Rules[i].NoBody = false
			}
		default:
			for i := range c.Prog.Rules {
				if c.Prog.Rules[i].Pat != nil && c.Prog.Rules[i].Pat.Kind == "gt" {
					c.Prog.Rules[i].Pat = nil
				}
			}
		}
		fixNoBody(c.Prog)
		c.ProgText = c.Prog.Render()
	}
}
