package main

// C01: every run ends in success or one of the three reported error kinds.
// Workloads: the signal x phase grid (enumerated), seeded program texts
// (grammatical, odd, garbled at token and byte level) evaluated under the
// step-budget hook, faulted input streams, resource shapes in isolated
// processes, the EvalExpression API, and (procsim.go) the process level.

import (
	"bytes"
	"encoding/json"
	"fmt"
	"strings"

	lang "github.com/alligator/jqawk/src"
)

type ProgInput struct {
	Name string `json:"name"`
	Data QBytes `json:"data"`
}

type ProgCase struct {
	Note      string      `json:"note,omitempty"`
	Prog      string      `json:"prog"`
	Selectors []string    `json:"selectors,omitempty"`
	Inputs    []ProgInput `json:"inputs"`
	Budget    int64       `json:"budget"`    // statements; 0 = unlimited
	ExprAPI   bool        `json:"expr_api"`  // call lang.EvalExpression(Prog, decoded Inputs[0])
	RootJSON  bool        `json:"root_json"` // after a successful run also ask for the root JSON (the -o path)
}

func runProgCase(c *ProgCase, keep bool) Outcome {
	lang.VerifResetProcessState()
	lang.VerifStepBudget = c.Budget
	defer func() { lang.VerifStepBudget = 0 }()
	log := newEventLog(keep)
	var out bytes.Buffer
	kind, msg := "", ""
	func() {
		defer func() {
			if r := recover(); r != nil {
				kind, msg = "panic", fmt.Sprint(r)
			}
		}()
		if c.ExprAPI {
			var root any
			if len(c.Inputs) > 0 {
				if err := json.Unmarshal(c.Inputs[0].Data, &root); err != nil {
					root = nil
				}
			}
			cell, err := lang.EvalExpression(c.Prog, root, &out)
			kind, msg = classifyErr(err)
			if err == nil && cell == nil {
				kind, msg = "nil-result", "EvalExpression returned neither a value nor an error"
			}
			return
		}
		files := make([]lang.InputFile, len(c.Inputs))
		for i, in := range c.Inputs {
			files[i] = lang.InputFile{Name: in.Name, Reader: bytes.NewReader(in.Data)}
		}
		ev, err := lang.EvalProgram(c.Prog, files, c.Selectors, &out, false)
		kind, msg = classifyErr(err)
		if err == nil && c.RootJSON && ev != nil {
			func() {
				defer func() {
					if r := recover(); r != nil {
						kind, msg = "panic", "GetRootJson after a successful run: "+fmt.Sprint(r)
					}
				}()
				ev.GetRootJson()
			}()
		}
	}()
	// the event hash covers the outcome only: C01 asserts the class, and stdout
	// may legitimately follow Go's map order (C10's business, not this check's)
	log.add('E', 0, "RUN_END %s %s", kind, shapeOfMsg(msg))
	if keep {
		log.lines = append(log.lines, fmt.Sprintf("  outcome=%s message=%q stdout=%q", kind, msg, truncate(out.String(), 300)))
	}
	o := Outcome{LogHash: log.Hash(), Steps: 1 + out.Len()/8, Log: log.lines, Probes: map[string]int{}}
	o.Probes["outcome_"+kind]++
	o.Shape = kind + "|" + shapeOfMsg(msg)
	o.Nontrivial = true
	switch kind {
	case "panic":
		o.Class, o.Msg = "panic", "internal panic: "+msg
	case "foreign":
		o.Class, o.Msg = "foreign-error", "a non-jqawk error value (internal control-flow signal?) reached the caller: "+msg
	case "nil-result":
		o.Class, o.Msg = "nil-result", msg
	}
	return o
}

func truncate(s string, n int) string {
	if len(s) > n {
		return s[:n] + "..."
	}
	return s
}

// shapeOfMsg abstracts an error message into a coarse shape (digits and
// quoted text removed) for the distinct-outcome measure.
func shapeOfMsg(m string) string {
	var sb strings.Builder
	inq := false
	for i := 0; i < len(m) && sb.Len() < 48; i++ {
		c := m[i]
		if c == '"' || c == '\'' {
			inq = !inq
			continue
		}
		if inq || (c >= '0' && c <= '9') {
			continue
		}
		sb.WriteByte(c)
	}
	return sb.String()
}

// ---------------------------------------------------------------- signal x phase grid

var gridSignals = []string{"next", "exit", "break", "continue", "return", "return 1"}

var gridWraps = []struct {
	name string
	tmpl string // @ = the signal
	fn   string // extra function definition
}{
	{"bare", "@", ""},
	{"if", "if (1) { @ }", ""},
	{"while", "i = 0\n while (i < 2) { i++\n @ }", ""},
	{"for", "for (i = 0; i < 2; i++) { @ }", ""},
	{"forin", "for (x in [1, 2]) { @ }", ""},
	{"nestedfn", "g()", "function g() { @ }\n"},
	{"match", "match (1) { 1 => { @ } }", ""},
	{"match-in-loop", "for (x in [1, 2]) { match (x) { 1 => { @ } } }", ""},
	{"loop-cond", "j = 0\n while (match (j) { 0 => { j++\n @ } }) { j++ }", ""},
	{"for-post", "for (i = 0; i < 2; match (1) { 1 => { i++\n @ } }) { i += 0 }", ""},
	{"match-expr-arm", "y = match (1) { 1 => match (2) { 2 => { @ } } }", ""},
	// the signal fires while a sub-expression of every kind is being evaluated
	{"in-object-literal", "o = { k: 1, m: match (1) { 1 => { @ } } }", ""},
	{"in-array-literal", "a = [1, match (1) { 1 => { @ } }, 3]", ""},
	{"in-binary-operand", "x = 1 + match (1) { 1 => { @ } }", ""},
	{"in-left-operand", "x = match (1) { 1 => { @ } } + 1", ""},
	{"in-unary-operand", "x = !match (1) { 1 => { @ } }", ""},
	{"in-logical-operand", "x = true && match (1) { 1 => { @ } }", ""},
	{"in-call-argument", "x = num(match (1) { 1 => { @ } })", ""},
	{"in-user-call-argument", "x = g2(1, match (1) { 1 => { @ } })", "function g2(a, b) { return a }\n"},
	{"in-method-argument", "x = [3, 1].contains(match (1) { 1 => { @ } })", ""},
	{"in-method-receiver", "x = match (1) { 1 => { @ } }.length()", ""},
	{"in-index", "x = [1, 2][match (1) { 1 => { @ } }]", ""},
	{"in-member-base", "x = match (1) { 1 => { @ } }.k", ""},
	{"in-assignment-target-index", "x[match (1) { 1 => { @ } }] = 1", ""},
	{"in-assignment-value", "x.k = match (1) { 1 => { @ } }", ""},
	{"in-compound-assignment", "x += match (1) { 1 => { @ } }", ""},
	{"in-if-condition", "if (match (1) { 1 => { @ } }) { x = 1 }", ""},
	{"in-forin-iterable", "for (q in [match (1) { 1 => { @ } }]) { x = q }", ""},
	{"in-for-init", "for (q = match (1) { 1 => { @ } }; q < 1; q++) { }", ""},
	{"in-printf-argument", "printf(\"%v\\n\", match (1) { 1 => { @ } })", ""},
	{"in-is-operand", "x = match (1) { 1 => { @ } } is number", ""},
	{"in-regex-operand", "x = \"a\" ~ match (1) { 1 => { @ } }", ""},
	{"in-match-subject", "x = match (match (1) { 1 => { @ } }) { z => z }", ""},
	{"in-match-pattern-body-expr", "x = match (1) { 1 => [match (2) { 2 => { @ } }] }", ""},
	{"in-json-argument", "x = json({ k: match (1) { 1 => { @ } } })", ""},
	{"in-incdec-target", "x[match (1) { 1 => { @ } }]++", ""},
	{"via-function-in-object-literal", "o = { k: sg() }", "function sg() { @ }\n"},
	{"via-function-in-array-literal", "a = [sg(), 2]", "function sg() { @ }\n"},
	{"via-function-in-operand", "x = 1 + sg()", "function sg() { @ }\n"},
	{"via-function-in-index", "x = [1][sg()]", "function sg() { @ }\n"},
	{"via-function-in-call-argument", "x = num(sg())", "function sg() { @ }\n"},
}

var gridSites = []struct {
	name string
	tmpl string // % = wrapped statement
	sel  bool
}{
	{"BEGIN", "BEGIN { % }\n{ print \"p\" }\nEND { print \"e\" }", false},
	{"BEGINFILE", "BEGINFILE { % }\n{ print \"p\" }\nEND { print \"e\" }", false},
	{"PATTERN", "{ % }\n{ print \"second\" }\nEND { print \"e\" }", false},
	{"ENDFILE", "ENDFILE { % }\n{ print \"p\" }\nEND { print \"e\" }", false},
	{"END", "END { % }\nEND { print \"e2\" }", false},
	{"pattern-expr", "function p() { %\n return true }\np() { print \"x\" }\n{ print \"second\" }", false},
	{"fn-from-BEGIN", "function f() { % }\nBEGIN { f() }\n{ print \"p\" }", false},
	{"fn-from-BEGINFILE", "function f() { % }\nBEGINFILE { f() }\n{ print \"p\" }", false},
	{"fn-from-PATTERN", "function f() { % }\n{ f() }\n{ print \"second\" }", false},
	{"fn-from-ENDFILE", "function f() { % }\nENDFILE { f() }\n{ print \"p\" }", false},
	{"fn-from-END", "function f() { % }\nEND { f() }", false},
	{"selector", "match ($) { zz => { % } }", true},
	{"print-arg", "{ print match (1) { 1 => { % } } }\nEND { print \"e\" }", false},
}

var gridInputs = [][]ProgInput{
	nil,
	{{"empty.json", QBytes("")}},
	{{"arr.json", QBytes("[1,2]")}},
	{{"two.json", QBytes("1 2")}},
	{{"bad.json", QBytes("[1] x")}},
	{{"a.json", QBytes("[1]")}, {"b.json", QBytes("{\"k\":2}")}},
}

func gridCount() int { return len(gridSignals) * len(gridWraps) * len(gridSites) * len(gridInputs) }

func gridCase(i int) *ProgCase {
	sig := gridSignals[i%len(gridSignals)]
	i /= len(gridSignals)
	wr := gridWraps[i%len(gridWraps)]
	i /= len(gridWraps)
	site := gridSites[i%len(gridSites)]
	i /= len(gridSites)
	in := gridInputs[i%len(gridInputs)]
	w := strings.ReplaceAll(wr.tmpl, "@", sig)
	fn := strings.ReplaceAll(wr.fn, "@", sig)
	body := strings.ReplaceAll(site.tmpl, "%", w)
	c := &ProgCase{Note: fmt.Sprintf("signal=%s wrap=%s site=%s", sig, wr.name, site.name), Inputs: in, Budget: 50000, RootJSON: true}
	if site.sel {
		// a selector cannot define functions: the nested-function wrap degenerates to a bare call
		c.Selectors = []string{body}
		c.Prog = fn + "{ print \"p\" }\nEND { print \"e\" }"
	} else {
		c.Prog = fn + body
	}
	return c
}

// ---------------------------------------------------------------- aliasing soup

// Arrays and objects reachable through several names, changed through one name
// and walked through another (print, json, for-in, sort, contains, -o). What
// the contents must be is C09/C15's business (and partly a known finding);
// here only the outcome class counts: no sequence may crash the interpreter.
func genAliasCase(t *Tape) *ProgCase {
	names := []string{"a", "b", "c", "o.arr", "o.inner.list", "$", "$.items", "q"}
	vals := []string{"1", "\"s\"", "null", "[7]", "{k: 1}", "a", "b", "$", "[a, b]", "true", "2.5"}
	pick := func(xs []string) string { return xs[t.Draw(len(xs))] }
	var sb strings.Builder
	sb.WriteString("function keep(x) { kept = x\n return x }\n")
	sb.WriteString("BEGINFILE { q = $\n a = [1, 2, 3]\n o = {arr: [4, 5], inner: {list: []}}\n")
	stmts := func(n int) {
		for i := 0; i < n; i++ {
			x, y := pick(names), pick(names)
			switch t.Weighted(5, 4, 4, 3, 3, 2, 2, 2, 2, 2, 2, 2, 1, 1, 1) {
			case 0:
				sb.WriteString(x + " = " + y + "\n")
			case 1:
				sb.WriteString(x + ".push(" + pick(vals) + ")\n")
			case 2:
				sb.WriteString("r = " + x + ".pop()\n")
			case 3:
				sb.WriteString("r = " + x + ".popfirst()\n")
			case 4:
				sb.WriteString(fmt.Sprintf("%s[%d] = %s\n", x, t.Draw(6)-1, pick(vals)))
			case 5:
				sb.WriteString("print " + x + ", " + y + "\n")
			case 6:
				sb.WriteString("print json(" + x + ")\n")
			case 7:
				sb.WriteString("for (e, ei in " + x + ") { n++\n " + y + ".pop() }\n")
			case 8:
				sb.WriteString("print " + x + ".sort(), " + x + ".contains(" + pick(vals) + "), " + x + ".length()\n")
			case 9:
				sb.WriteString("printf(\"%v|%v\\n\", " + x + ", [" + y + ", " + x + "])\n")
			case 10:
				sb.WriteString(x + " = " + y + ".sort()\n")
			case 11:
				sb.WriteString(x + " = keep(" + y + ")\n")
			case 12:
				sb.WriteString(x + " = [" + y + ", " + y + "]\n")
			case 13:
				sb.WriteString("o." + pick([]string{"arr", "k", "inner"}) + " = " + y + "\n")
			default:
				sb.WriteString(fmt.Sprintf("print %s[%d], %s[-1]\n", x, t.Draw(5), y))
			}
		}
	}
	stmts(2 + t.Draw(6))
	sb.WriteString("}\n{ ")
	stmts(t.Draw(5))
	sb.WriteString("}\nENDFILE { print\n")
	stmts(t.Draw(4))
	sb.WriteString("}\nEND { print a, b, c, o, q, kept }\n")
	docs := []string{`[10, 20, 30]`, `{"items": [1, 2, 3], "k": 1}`, `[[1, 2], [3]]`, `[]`, `{"items": []}`, `[1] [2, 3]`}
	return &ProgCase{Prog: sb.String(), Budget: 5000, RootJSON: true, Inputs: []ProgInput{{Name: "doc.json", Data: QBytes(pick(docs))}}}
}

// ---------------------------------------------------------------- string-literal escape grid

// every byte after a backslash, at every distance from the end of the literal,
// in both quote styles, in a program string, a selector and a printf format
var escapeTails = []string{"", "4", "41", "0041", "00e", "{41}", "G", "\\", " "}

func escapeGridCount() int { return 256 * len(escapeTails) * 4 }

func escapeGridCase(i int) *ProgCase {
	b := byte(i % 256)
	i /= 256
	tail := escapeTails[i%len(escapeTails)]
	i /= len(escapeTails)
	form := i % 4
	lit := "\\" + string([]byte{b}) + tail
	if b == '\'' || b == '"' || b == '\n' {
		// the lexer ends the literal / the line there: keep the shape but stay inside the literal
		lit = "\\\\" + tail
	}
	c := &ProgCase{Note: fmt.Sprintf("escape 0x%02x tail %q form %d", b, tail, form), Budget: 1000, Inputs: []ProgInput{{Name: "in.json", Data: QBytes(`{"a": 1}`)}}}
	switch form {
	case 0:
		c.Prog = "{ print \"" + lit + "\" }"
	case 1:
		c.Prog = "{ x = 'pre" + lit + "'\n print x.length(), x }"
	case 2:
		c.Prog = "{ printf(\"" + lit + "%s\\n\", \"v\") }"
	default:
		c.Prog = "{ print }"
		c.Selectors = []string{"\"" + lit + "\""}
	}
	return c
}

// ---------------------------------------------------------------- printf grid

var printfDirectives = []string{"s", "f", "v", "%", "d", "q", ""}
var printfWidths = []string{"", "1", "3", "8", "-1", "-3", "-8", "03", "-03", "0", "-0", "65536", "65537", "-65536", "-65537", "99999999999999999999", "-", "3.2", " 3"}
var printfArgs = []string{`"ab"`, `"abcdefghij"`, `"éé"`, `"日本語テキスト"`, `"😀"`, `""`, `"a\tb"`, "7", "2.5", "-3", "123456789012345678901", "0.000001", "true", "null", "[1, \"é\"]", "{k: \"日本\"}", "", "unsetvar", "$", "$.name", `"\xff\xfe"`}

func printfGridCount() int { return len(printfDirectives) * len(printfWidths) * len(printfArgs) }

func printfGridCase(i int) *ProgCase {
	d := printfDirectives[i%len(printfDirectives)]
	i /= len(printfDirectives)
	w := printfWidths[i%len(printfWidths)]
	i /= len(printfWidths)
	a := printfArgs[i%len(printfArgs)]
	arg := ""
	if a != "" {
		arg = ", " + a
	}
	prog := "{ printf(\"[%" + w + d + "]\\n\"" + arg + ")\n printf(\"%" + w + d + "|%" + w + d + "\\n\"" + arg + arg + ") }"
	return &ProgCase{Note: "printf %" + w + d + " with " + a, Prog: prog, Budget: 1000, Inputs: []ProgInput{{Name: "in.json", Data: QBytes(`{"name": "Zoë Ünïcödé", "n": 1}`)}}}
}

// ---------------------------------------------------------------- program text generator

type progGen struct {
	t       *Tape
	fnames  []string
	inLoop  bool
	inFn    bool
	noLoops bool // no while / three-clause for / user functions: terminates by construction
}

var pgIdents = []string{"a", "b", "x", "y", "n", "s", "arr", "obj", "k", "v", "i", "acc"}
var pgMembers = []string{"a", "b", "id", "k", "length", "push", "items", "t"}
var pgStrings = []string{`"x"`, `'y'`, `""`, `"a b"`, `"12"`, `"%s %f\n"`, `"tab\t"`, `"bad\q"`, `"é"`, `'%5s|'`, `"%-3f"`, `"%"`, `"%v"`, `"1e3"`, `","`, `"%-3s"`, `"%-8s|%3s"`, `"%08s"`, `"éé"`, `"日本語"`, `"%-2s%-2s"`, `"%5v"`}
var pgRegex = []string{"/a/", "/^[0-9]+$/", "/(/", "/x|y/", "/\\d+/"}
var pgBinops = []string{"+", "-", "*", "/", "%", "==", "!=", "<", "<=", ">", ">=", "&&", "||", "~", "!~"}
var pgTypes = []string{"number", "string", "array", "object", "bool", "null", "function", "regex", "unknown", "foo"}

func (g *progGen) pick(xs []string) string { return xs[g.t.Draw(len(xs))] }

func (g *progGen) lvalue(d int) string {
	switch g.t.Weighted(5, 2, 2, 1, 1, 1) {
	case 0:
		return g.pick(pgIdents)
	case 1:
		return g.pick(pgIdents) + "." + g.pick(pgMembers)
	case 2:
		return g.pick(pgIdents) + "[" + g.expr(d-1) + "]"
	case 3:
		return "$." + g.pick(pgMembers)
	case 4:
		return "$[" + g.expr(d-1) + "]"
	default:
		return "$"
	}
}

func (g *progGen) args(d, max int) string {
	n := g.t.Draw(max + 1)
	parts := make([]string, n)
	for i := range parts {
		parts[i] = g.expr(d - 1)
	}
	return strings.Join(parts, ", ")
}

func (g *progGen) expr(d int) string {
	t := g.t
	if d <= 0 {
		switch t.Weighted(4, 3, 2, 2, 1, 1, 1, 1) {
		case 0:
			return fmt.Sprint(t.Draw(12))
		case 1:
			return g.pick(pgIdents)
		case 2:
			return g.pick(pgStrings)
		case 3:
			return "$"
		case 4:
			return []string{"true", "false", "null"}[t.Draw(3)]
		case 5:
			return []string{"$index", "$file", "$zz", "$.a", "$[0]"}[t.Draw(5)]
		case 6:
			return []string{"2.5", "0", "1000000", "3.", "1.2.3", "007"}[t.Draw(6)]
		default:
			return g.pick(pgRegex)
		}
	}
	switch t.Weighted(6, 8, 4, 4, 5, 3, 3, 3, 3, 2, 2, 2, 2, 1) {
	case 0:
		return g.expr(0)
	case 1:
		return g.expr(d-1) + " " + g.pick(pgBinops) + " " + g.expr(d-1)
	case 2:
		return g.expr(d-1) + "." + g.pick(pgMembers)
	case 3:
		return g.expr(d-1) + "[" + g.expr(d-1) + "]"
	case 4: // calls
		switch t.Weighted(3, 3, 3, 1) {
		case 0:
			if len(g.fnames) > 0 {
				return g.pick(g.fnames) + "(" + g.args(d, 3) + ")"
			}
			return "num(" + g.expr(d-1) + ")"
		case 1:
			return []string{"printf", "json", "num"}[t.Draw(3)] + "(" + g.args(d, 3) + ")"
		case 2:
			m := []string{"length", "push", "pop", "popfirst", "contains", "sort", "split", "upper", "lower", "floor", "ceil", "round", "pluck", "nosuch"}
			return g.expr(d-1) + "." + g.pick(m) + "(" + g.args(d, 2) + ")"
		default:
			return g.expr(d-1) + "(" + g.args(d, 2) + ")"
		}
	case 5:
		return []string{"!", "-", "+", "++", "--", "! ", "- "}[t.Draw(7)] + g.expr(d-1)
	case 6:
		return g.lvalue(d) + []string{"++", "--"}[t.Draw(2)]
	case 7:
		return g.lvalue(d) + " " + []string{"=", "+=", "-=", "*=", "/="}[t.Draw(5)] + " " + g.expr(d-1)
	case 8:
		return "(" + g.expr(d-1) + ")"
	case 9:
		return "[" + g.args(d, 4) + "]"
	case 10:
		n := t.Draw(3)
		parts := make([]string, n)
		for i := range parts {
			key := g.pick(pgMembers)
			if t.Chance(1, 4) {
				key = g.pick(pgStrings)
			}
			parts[i] = key + ": " + g.expr(d-1)
		}
		return "{ " + strings.Join(parts, ", ") + " }"
	case 11:
		return g.expr(d-1) + " is " + g.pick(pgTypes)
	case 12:
		return g.matchExpr(d)
	default:
		// odd but grammatical shapes
		return []string{"1(2)", "[1].x.y", "\"s\".length()", "null.a.b", "{}.k", "x.push(x)", "1 = 2", "f() = 3", "[1,2] < 3", "$zz.a", "printf()", "json()", "(1)(2)", "-\"s\"",
			// methods detached from their receiver and called through another route
			"{}.pluck(\"pluck\")", "{}.pluck(\"length\", \"pluck\").pluck(\"x\")", "obj.pluck(\"pluck\").pluck", "json({}.pluck(\"length\"))", "[{}.pluck(\"pluck\")]", "{}.pluck(\"pluck\").pluck(\"pluck\")"}[t.Draw(20)]
	}
}

func (g *progGen) matchExpr(d int) string {
	t := g.t
	var sb strings.Builder
	sb.WriteString("match (" + g.expr(d-1) + ") { ")
	n := 1 + t.Draw(3)
	for i := 0; i < n; i++ {
		np := 1 + t.Draw(2)
		pats := make([]string, np)
		for j := range pats {
			switch t.Weighted(4, 3, 3, 1) {
			case 0:
				pats[j] = g.expr(0)
			case 1:
				pats[j] = g.pick(pgIdents)
			case 2:
				pats[j] = "[" + g.pick(pgIdents) + ", " + g.expr(0) + "]"
			default:
				pats[j] = g.expr(1)
			}
		}
		sb.WriteString(strings.Join(pats, ", ") + " => ")
		if t.Chance(1, 3) {
			sb.WriteString(g.block(d - 1))
		} else {
			sb.WriteString(g.expr(d - 1))
		}
		if i < n-1 || t.Chance(1, 3) {
			sb.WriteString(", ")
		}
	}
	sb.WriteString(" }")
	return sb.String()
}

func (g *progGen) block(d int) string {
	n := g.t.Draw(4)
	var sb strings.Builder
	sb.WriteString("{\n")
	for i := 0; i < n; i++ {
		sb.WriteString(g.stmt(d))
		if g.t.Chance(1, 6) {
			sb.WriteString("; ")
		} else {
			sb.WriteString("\n")
		}
	}
	sb.WriteString("}")
	return sb.String()
}

func (g *progGen) stmt(d int) string {
	t := g.t
	if d <= 0 {
		if t.Chance(1, 2) {
			return "print " + g.expr(1)
		}
		return g.expr(1)
	}
	w := []int{6, 6, 4, 2, 2, 3, 2, 2, 1, 1, 2}
	if g.noLoops {
		w[3], w[4] = 0, 0
	}
	switch t.Weighted(w...) {
	case 0:
		n := t.Draw(3)
		parts := make([]string, n)
		for i := range parts {
			parts[i] = g.expr(d - 1)
		}
		return "print " + strings.Join(parts, ", ")
	case 1:
		return g.expr(d)
	case 2:
		s := "if (" + g.expr(d-1) + ") " + g.stmtOrBlock(d-1)
		if t.Chance(1, 3) {
			s += " else " + g.stmtOrBlock(d-1)
		}
		return s
	case 3:
		old := g.inLoop
		g.inLoop = true
		s := "while (" + g.expr(d-1) + ") " + g.stmtOrBlock(d-1)
		g.inLoop = old
		return s
	case 4:
		old := g.inLoop
		g.inLoop = true
		v := g.pick(pgIdents)
		s := fmt.Sprintf("for (%s = 0; %s < %d; %s++) ", v, v, t.Draw(5), v) + g.stmtOrBlock(d-1)
		if t.Chance(1, 4) {
			s = "for (" + g.expr(d-1) + "; " + g.expr(d-1) + "; " + g.expr(d-1) + ") " + g.stmtOrBlock(d-1)
		}
		g.inLoop = old
		return s
	case 5:
		old := g.inLoop
		g.inLoop = true
		vars := g.pick(pgIdents)
		if t.Chance(1, 2) {
			vars += ", " + g.pick(pgIdents)
		}
		s := "for (" + vars + " in " + g.expr(d-1) + ") " + g.stmtOrBlock(d-1)
		g.inLoop = old
		return s
	case 6:
		return g.block(d - 1)
	case 7:
		if g.inLoop || t.Chance(1, 6) {
			return []string{"break", "continue"}[t.Draw(2)]
		}
		return "next"
	case 8:
		return "next"
	case 9:
		return "exit"
	default:
		if g.inFn || t.Chance(1, 8) {
			if t.Chance(1, 3) {
				return "return"
			}
			return "return " + g.expr(d-1)
		}
		return g.expr(d)
	}
}

func (g *progGen) stmtOrBlock(d int) string {
	if g.t.Chance(2, 3) {
		return g.block(d)
	}
	return g.stmt(d)
}

func (g *progGen) program() string {
	t := g.t
	var sb strings.Builder
	nf := t.Draw(4)
	if g.noLoops {
		nf = 0
	}
	for i := 0; i < nf; i++ {
		g.fnames = append(g.fnames, fmt.Sprintf("f%d", i))
	}
	for i := 0; i < nf; i++ {
		np := t.Draw(4)
		params := make([]string, np)
		for j := range params {
			params[j] = g.pick(pgIdents)
		}
		g.inFn = true
		sb.WriteString("function " + g.fnames[i] + "(" + strings.Join(params, ", ") + ") " + g.block(2+t.Draw(2)) + "\n")
		g.inFn = false
	}
	nr := 1 + t.Draw(5)
	for i := 0; i < nr; i++ {
		switch t.Weighted(5, 2, 2, 2, 2, 2) {
		case 0:
			sb.WriteString(g.block(2+t.Draw(2)) + "\n")
		case 1:
			sb.WriteString("BEGIN " + g.block(2+t.Draw(2)) + "\n")
		case 2:
			sb.WriteString("END " + g.block(2) + "\n")
		case 3:
			sb.WriteString("BEGINFILE " + g.block(2) + "\n")
		case 4:
			sb.WriteString("ENDFILE " + g.block(2) + "\n")
		default:
			sb.WriteString(g.expr(2))
			if t.Chance(2, 3) {
				sb.WriteString(" " + g.block(2))
			}
			sb.WriteString("\n")
		}
	}
	return sb.String()
}

// crude tokenizer for garbling: identifiers/numbers, quoted strings, single bytes
func crudeTokens(s string) []string {
	var toks []string
	for i := 0; i < len(s); {
		c := s[i]
		switch {
		case c == '_' || c == '$' || (c >= 'a' && c <= 'z') || (c >= 'A' && c <= 'Z') || (c >= '0' && c <= '9'):
			j := i + 1
			for j < len(s) && (s[j] == '_' || (s[j] >= 'a' && s[j] <= 'z') || (s[j] >= 'A' && s[j] <= 'Z') || (s[j] >= '0' && s[j] <= '9')) {
				j++
			}
			toks = append(toks, s[i:j])
			i = j
		case c == '"' || c == '\'':
			j := i + 1
			for j < len(s) && s[j] != c {
				j++
			}
			if j < len(s) {
				j++
			}
			toks = append(toks, s[i:j])
			i = j
		default:
			toks = append(toks, s[i:i+1])
			i++
		}
	}
	return toks
}

var garbleTokens = []string{"{", "}", "(", ")", "[", "]", ",", ";", "\n", "=>", "=", "==", "+", "-", "++", "--", "!", ".", "$", "/", "*", "%", "&&", "||", "~", ":", "BEGIN", "END", "BEGINFILE", "ENDFILE", "function", "return", "if", "else", "for", "while", "in", "match", "break", "continue", "next", "exit", "print", "is", "null", "true", "x", "1", "\"", "'", "#", "\\", "\r\n", "é", "\x00", "\xff"}

func garble(t *Tape, src string) string { return garbleWith(t, src, garbleTokens) }

// garbleTokensNoLoop cannot introduce a loop or a function definition
var garbleTokensNoLoop = func() []string {
	var out []string
	for _, k := range garbleTokens {
		if k != "while" && k != "for" && k != "function" && k != "\x00" {
			out = append(out, k)
		}
	}
	return out
}()

func garbleWith(t *Tape, src string, garbleTokens []string) string {
	switch t.Weighted(4, 4, 2) {
	case 0:
		return src
	case 1:
		toks := crudeTokens(src)
		n := 1 + t.Draw(3)
		for k := 0; k < n && len(toks) > 0; k++ {
			i := t.Draw(len(toks))
			switch t.Weighted(3, 2, 2, 3, 2) {
			case 0: // drop
				toks = append(toks[:i], toks[i+1:]...)
			case 1: // duplicate
				toks = append(toks[:i+1], toks[i:]...)
			case 2: // swap with neighbour
				if i+1 < len(toks) {
					toks[i], toks[i+1] = toks[i+1], toks[i]
				}
			case 3: // replace
				toks[i] = garbleTokens[t.Draw(len(garbleTokens))]
			default: // insert
				toks = append(toks[:i], append([]string{garbleTokens[t.Draw(len(garbleTokens))]}, toks[i:]...)...)
			}
		}
		return strings.Join(toks, "")
	default:
		b := []byte(src)
		n := 1 + t.Draw(3)
		for k := 0; k < n && len(b) > 0; k++ {
			i := t.Draw(len(b))
			switch t.Weighted(2, 2, 2, 1) {
			case 0:
				b[i] = byte(t.Draw(256))
			case 1:
				b = append(b[:i], b[i+1:]...)
			case 2:
				b = append(b[:i], append([]byte{byte(t.Draw(256))}, b[i:]...)...)
			default:
				b = b[:i]
			}
		}
		return string(b)
	}
}

var progInputs = []string{
	`[{"a":1,"b":[1,2],"id":1,"t":true},{"a":null,"k":"v"}]`,
	`{"a":{"b":[1,2,3]},"items":[1,2],"id":7}`,
	`[1,"x",true,null,[2],{"k":1}]`,
	"1 2 3",
	"",
	`[[1,2],[3]]`,
	`"str"`,
	`[1,`,
	`[] {} null`,
	`{"a":1} x`,
	"[1.5e300, -0, 1e-7, 12345678901234567890]",
}

func genProgCase(t *Tape, tier string) *ProgCase {
	g := &progGen{t: t}
	c := &ProgCase{Budget: 20000, RootJSON: true}
	src := g.program()
	if t.Chance(1, 100) {
		// a long flat program near the 64 KiB bound
		var sb strings.Builder
		for sb.Len() < 60000 {
			sb.WriteString(g.block(2) + "\n")
		}
		src = sb.String()
		c.Budget = 5000
		c.Note = "near 64 KiB"
	}
	c.Prog = garble(t, src)
	if len(c.Prog) > 65536 {
		c.Prog = c.Prog[:65536]
	}
	nin := t.Weighted(1, 6, 2)
	for i := 0; i < nin; i++ {
		c.Inputs = append(c.Inputs, ProgInput{Name: fmt.Sprintf("in%d.json", i), Data: QBytes(progInputs[t.Draw(len(progInputs))])})
	}
	if t.Chance(1, 3) {
		ns := 1 + t.Draw(2)
		for i := 0; i < ns; i++ {
			sel := g.expr(2)
			if t.Chance(1, 3) {
				sel = garble(t, sel)
			}
			c.Selectors = append(c.Selectors, sel)
		}
	}
	return c
}

func genExprCase(t *Tape) *ProgCase {
	g := &progGen{t: t}
	c := &ProgCase{Budget: 20000, ExprAPI: true}
	c.Prog = g.expr(3)
	if t.Chance(1, 2) {
		c.Prog = garble(t, c.Prog)
	}
	c.Inputs = []ProgInput{{Name: "root", Data: QBytes(progInputs[t.Draw(len(progInputs))])}}
	return c
}

// ---------------------------------------------------------------- resource shapes

func resourceCases() []*ProgCase {
	rep := func(s string, n int) string { return strings.Repeat(s, n) }
	arr := QBytes("[1,2,3]")
	in := []ProgInput{{"in.json", arr}}
	cs := []*ProgCase{
		{Note: "direct runaway recursion", Prog: "function f(n) { return f(n + 1) }\nBEGIN { print f(0) }"},
		{Note: "mutual runaway recursion", Prog: "function f(n) { return g(n + 1) }\nfunction g(n) { return f(n) }\n{ print f(0) }", Inputs: in},
		{Note: "runaway recursion through a match body", Prog: "function f(n) { return match (n) { x => f(x + 1) } }\nBEGIN { f(0) }"},
		{Note: "runaway recursion through a match block body", Prog: "function f(n) { match (n) { x => { f(x + 1) } } }\nBEGIN { f(0) }"},
		{Note: "runaway recursion in a pattern expression", Prog: "function p(n) { return p(n) }\np(1) { print }", Inputs: in},
		{Note: "runaway recursion inside a loop", Prog: "function f(n) { for (i = 0; i < 3; i++) { f(n + 1) } }\nEND { f(0) }", Inputs: in},
		{Note: "deep but finite recursion (3000)", Prog: "function f(n) { if (n == 0) { return 0 }\n return 1 + f(n - 1) }\nBEGIN { print f(3000) }"},
		{Note: "recursion just below and above the limit", Prog: "function f(n) { if (n == 0) { return 0 }\n return 1 + f(n - 1) }\nBEGIN { print f(4000)\n print f(5000) }"},
		{Note: "64 KiB of nested parentheses", Prog: "BEGIN { print " + rep("(", 32000) + "1" + rep(")", 32000) + " }"},
		{Note: "60 K nested unary not", Prog: "BEGIN { print " + rep("!", 60000) + "1 }"},
		{Note: "30 K nested array literals", Prog: "BEGIN { x = " + rep("[", 30000) + rep("]", 30000) + "\n print 1 }"},
		{Note: "20 K nested blocks", Prog: "BEGIN " + rep("{", 20000) + " print 1 " + rep("}", 20000)},
		{Note: "10 K nested ifs", Prog: "BEGIN { " + rep("if (1) ", 10000) + "print 1 }"},
		{Note: "unbalanced 64 KiB of open parentheses", Prog: "BEGIN { print " + rep("(", 65000) + " }"},
		{Note: "12 K nested member chain", Prog: "BEGIN { print x" + rep(".a", 12000) + " }"},
		{Note: "deep selector", Prog: "{ print 1 }", Selectors: []string{rep("(", 20000) + "$" + rep(")", 20000)}, Inputs: in},
		{Note: "input nested beyond the decoder limit", Prog: "{ print 1 }", Inputs: []ProgInput{{"deep.json", QBytes(rep("[", 10050) + rep("]", 10050))}}},
		{Note: "input nested 9000 deep, printed", Prog: "{ print }", Inputs: []ProgInput{{"deep.json", QBytes(rep("[", 9000) + rep("]", 9000))}}},
		{Note: "index far beyond the fill limit", Prog: "BEGIN { a = []\n a[100000000] = 1\n print a.length() }"},
		{Note: "negative index far before the start", Prog: "BEGIN { a = [1]\n print a[-100000000] }"},
		{Note: "huge printf width", Prog: "BEGIN { printf(\"%99999999999s\", \"x\") }"},
		{Note: "self-referential value printed and serialised", Prog: "BEGIN { a = {}\n a.self = a\n print a\n print json(a)\n b = []\n b.push(b)\n print b }"},
		{Note: "five thousand distinct patterns compiled in one run", Prog: "BEGIN { for (i = 0; i < 5000; i++) { if (\"p7\" ~ (\"^p\" + i + \"$\")) { c++ }\n if (\"q\" !~ (\"q\" + i)) { d++ } }\n print c, d }"},
		{Note: "the same few patterns compiled a hundred thousand times", Prog: "{ for (i = 0; i < 40000; i++) { if ($ ~ \"^[0-9]+$\") { c++ }\n if ($ ~ (\"x\" + (i % 3))) { d++ } } }\nEND { print c, d }", Inputs: in},
		{Note: "a hundred thousand distinct keys, strings and numbers", Prog: "BEGIN { o = {}\n for (i = 0; i < 100000; i++) { o[\"k\" + i] = \"v\" + i\n n += o[\"k\" + i].length() }\n print o.length(), n }"},
		{Note: "recursion inside a moderately nested expression", Prog: "function f(n) { return " + rep("(", 40) + "f(n + 1)" + rep(")", 40) + " }\nBEGIN { f(0) }"},
	}
	// nesting multiplied by recursion depth: must end in an error, not in a Go stack overflow
	for _, n := range []int{60, 100, 150, 400, 2000} {
		cs = append(cs,
			&ProgCase{Note: fmt.Sprintf("recursion inside %d nested unary operators", n), Prog: "function f(n) { return " + rep("!", n) + "f(n + 1) }\nBEGIN { f(0) }"},
			&ProgCase{Note: fmt.Sprintf("recursion inside %d nested binary operators", n), Prog: "function f(n) { return " + rep("1 + (", n) + "f(n + 1)" + rep(")", n) + " }\nBEGIN { f(0) }"},
			&ProgCase{Note: fmt.Sprintf("recursion inside %d nested ifs", n), Prog: "function f(n) { " + rep("if (1) { ", n) + "f(n + 1)" + rep(" }", n) + " }\nBEGIN { f(0) }"},
			&ProgCase{Note: fmt.Sprintf("recursion inside %d nested array literals", n), Prog: "function f(n) { return " + rep("[", n) + "f(n + 1)" + rep("]", n) + " }\nBEGIN { f(0) }"},
			&ProgCase{Note: fmt.Sprintf("recursion under a %d-member chain", n), Prog: "function f(n) { return f(n + 1)" + rep(".a", n) + " }\nBEGIN { f(0) }"},
			&ProgCase{Note: fmt.Sprintf("recursion inside %d nested loops", n), Prog: "function f(n) { " + rep("for (x in [1]) { ", n) + "f(n + 1)" + rep(" }", n) + " }\nBEGIN { f(0) }"},
			&ProgCase{Note: fmt.Sprintf("recursion inside %d nested call arguments", n), Prog: "function g(x) { return x }\nfunction f(n) { return " + rep("g(", n) + "f(n + 1)" + rep(")", n) + " }\nBEGIN { f(0) }"},
			&ProgCase{Note: fmt.Sprintf("mutual recursion inside %d nested object literals", n), Prog: "function f(n) { return " + rep("{ a: ", n) + "h(n + 1)" + rep(" }", n) + " }\nfunction h(n) { return f(n) }\n{ f(0) }", Inputs: in},
		)
	}
	// built-in methods detached from their receiver (pluck copies prototype
	// members into an ordinary object) and then called through another route
	for _, m := range []string{"pluck", "length"} {
		for _, call := range []string{"v()", "v(\"a\")", "v(1, 2)", "print v", "x = v\n x(\"a\")", "print json(v)", "print [v]", "y = {f: v}"} {
			cs = append(cs, &ProgCase{Note: "detached method " + m + ": " + call, Prog: "BEGIN { for (k, v in {}.pluck(\"" + m + "\")) { " + call + " } }"})
		}
		cs = append(cs,
			&ProgCase{Note: "detached method " + m + " via match binding", Prog: "BEGIN { match ({}.pluck(\"" + m + "\")) { o => { for (k, v in o) { print v(\"q\") } } } }"},
			&ProgCase{Note: "detached method " + m + " from a selector", Prog: "{ for (k, v in $) { print v(\"a\") } }", Selectors: []string{"{}.pluck(\"" + m + "\")"}, Inputs: in},
		)
	}
	// runaway recursion through every mix of call and match frames, entered from
	// several contexts: whichever kind of frame is the one that exceeds the limit,
	// the outcome must be an ordinary runtime error
	recShapes := []struct{ name, def string }{
		{"call", "function f(n) { return f(n + 1) }"},
		{"call+match-expr", "function f(n) { return match (n) { x => f(x + 1) } }"},
		{"call+match-block", "function f(n) { match (n) { x => { return f(x + 1) } } }"},
		{"call+2-matches", "function f(n) { return match (n) { x => match (x) { y => f(y + 1) } } }"},
		{"call+3-matches", "function f(n) { return match (n) { x => match (x) { y => match (y) { z => f(z + 1) } } } }"},
		{"two-functions+match", "function f(n) { return match (n) { x => h(x) } }\nfunction h(n) { return f(n + 1) }"},
	}
	entries := []struct{ name, call string }{
		{"BEGIN", "BEGIN { f(0) }"},
		{"match-expr", "BEGIN { v = match (0) { s => f(s) } }"},
		{"match-block", "BEGIN { match (0) { s => { f(s) } } }"},
		{"2-matches", "BEGIN { v = match (0) { s => match (s) { t => f(t) } } }"},
		{"function", "function e1(a) { return f(a) }\nBEGIN { e1(0) }"},
		{"function+match", "function e1(a) { return match (a) { q => f(q) } }\nBEGIN { e1(0) }"},
		{"pattern", "f(0) { print 1 }"},
		{"END-match", "END { print match (1) { s => f(s) } }"},
	}
	for _, r := range recShapes {
		for _, en := range entries {
			c := &ProgCase{Note: "runaway recursion " + r.name + " entered from " + en.name, Prog: r.def + "\n" + en.call}
			if en.name == "pattern" {
				c.Inputs = in
			}
			cs = append(cs, c)
		}
	}
	for _, c := range cs {
		c.RootJSON = true
	}
	return cs
}

// ---------------------------------------------------------------- limit boundaries

// BoundaryCase: which statement or expression is the one that crosses an
// internal limit must not matter. The harness first *measures* where the
// boundary lies (no implementation constant appears here): it looks for a
// recursion depth D and a chain length c such that the program below succeeds
// with c nested blocks and is refused with c+1, and then places every kind of
// statement at the innermost position for chain lengths around that boundary.
type BoundaryCase struct {
	Stmt   string `json:"stmt"`   // innermost statement
	Prefix string `json:"prefix"` // extra definitions
	PerLvl int    `json:"per_level"`
}

func boundaryProgram(c *BoundaryCase, depth, chain int, stmt string) string {
	var sb strings.Builder
	sb.WriteString(c.Prefix)
	sb.WriteString("function g() { return 1 }\n")
	sb.WriteString("function f(n) {\n")
	sb.WriteString("  if (n > 0) { return " + strings.Repeat("!", c.PerLvl) + "f(n - 1) }\n")
	sb.WriteString("  for (lq in [1]) { " + strings.Repeat("{ ", chain) + stmt + strings.Repeat(" }", chain) + " }\n")
	sb.WriteString("}\n")
	sb.WriteString(fmt.Sprintf("{ f(%d)\n print \"done\" }\n", depth))
	return sb.String()
}

func runBoundaryOnce(prog string) (kind, msg string) {
	lang.VerifResetProcessState()
	func() {
		defer func() {
			if r := recover(); r != nil {
				kind, msg = "panic", fmt.Sprint(r)
			}
		}()
		var out bytes.Buffer
		_, err := lang.EvalProgram(prog, []lang.InputFile{{Name: "in.json", Reader: strings.NewReader("[1]")}}, nil, &out, false)
		kind, msg = classifyErr(err)
	}()
	return
}

func runBoundaryCase(c *BoundaryCase, keep bool) Outcome {
	log := newEventLog(keep)
	o := Outcome{Probes: map[string]int{}, Nontrivial: true, Shape: "boundary|" + c.Stmt}
	finish := func() Outcome {
		o.LogHash, o.Log, o.Steps = log.Hash(), log.lines, log.seq
		return o
	}
	// 1. measure: deepest recursion (below the call limit) at which a neutral
	//    innermost statement still succeeds with an empty chain
	neutral := "lz = 1"
	ok := func(d, ch int) bool {
		k, _ := runBoundaryOnce(boundaryProgram(c, d, ch, neutral))
		return k == "success"
	}
	// binary search for the deepest recursion that still succeeds with an empty chain
	lo, hi := 0, 4050
	if !ok(100, 0) {
		o.Skipped = "no successful depth found"
		return finish()
	}
	lo = 100
	for lo < hi {
		mid := (lo + hi + 1) / 2
		if ok(mid, 0) {
			lo = mid
		} else {
			hi = mid - 1
		}
	}
	depth := lo
	// longest chain that still succeeds at that depth (exponential, then binary search)
	chain, step := 0, 1
	for chain+step <= 512 && ok(depth, chain+step) {
		chain += step
		step *= 2
	}
	for step /= 2; step >= 1; step /= 2 {
		if chain+step <= 512 && ok(depth, chain+step) {
			chain += step
		}
	}
	log.add('B', 0, "BOUNDARY depth=%d chain=%d per-level=%d", depth, chain, c.PerLvl)
	if chain >= 512 {
		// the call depth limit, not the nesting limit, is what stops this shape
		o.Probes["boundary_is_call_depth"]++
	}
	// 2. every chain length around the boundary with the statement under test innermost
	for d := -8; d <= 4; d++ {
		cl := chain + d
		if cl < 0 {
			continue
		}
		k, m := runBoundaryOnce(boundaryProgram(c, depth, cl, c.Stmt))
		log.add('B', 0, "RUN chain=%d stmt=%q -> %s %s", cl, c.Stmt, k, shapeOfMsg(m))
		o.Probes["boundary_runs"]++
		switch k {
		case "panic":
			o.Class, o.Msg = "panic", fmt.Sprintf("with `%s` as the statement that crosses the internal limit (recursion depth %d, %d nested blocks): internal panic: %s", c.Stmt, depth, cl, m)
			return finish()
		case "foreign":
			o.Class, o.Msg = "foreign-error", fmt.Sprintf("with `%s` as the statement that crosses the internal limit (recursion depth %d, %d nested blocks): %s", c.Stmt, depth, cl, m)
			return finish()
		}
	}
	return finish()
}

var boundaryStmts = []string{
	"return", "return 1", "return g()", "next", "exit", "break", "continue", "print 1", "print", "lz = 1", "lz++", "g()",
	"if (1) { lz = 1 }", "if (0) { lz = 1 } else { lz = 2 }", "while (0) { }", "for (li = 0; li < 1; li++) { }", "for (lw in [1]) { }",
	"lz = match (1) { 1 => 2 }", "match (1) { lm => { lz = lm } }", "lz = [1, [2]]", "lz = {a: {b: 1}}", "lz = !!!!1", "lz = 1 + (2 * (3 - 1))",
	"printf(\"%s\", \"\")", "lz = \"abc\".upper()", "lz = [3, 1].sort()", "lz = $.k", "$ = 1", "lz = json([1])", "lz.a.b[2] = 1",
}

// ---------------------------------------------------------------- registration

var libComponents = map[string][]string{
	"real":      {"jqawk lexer, parser, evaluator, prototypes, runtime (lang.EvalProgram / lang.EvalExpression / GetRootJson)", "encoding/json", "regexp", "Go runtime"},
	"simulated": {"input readers and stdout (in-memory)", "process restarts between cases (VerifResetProcessState hook)", "statement budget (VerifStepBudget hook) so that every generated program terminates"},
	"stubbed":   {},
}

func progWorkload(name string, count map[string]int, gen func(i int, t *Tape, tier string) *ProgCase, isolated bool) *Workload {
	return &Workload{
		Name:     name,
		Count:    func(tier string) int { return count[tier] },
		Gen:      func(i int, t *Tape, tier string) any { return gen(i, t, tier) },
		Run:      func(c any, keep bool) Outcome { return runProgCase(c.(*ProgCase), keep) },
		New:      func() any { return &ProgCase{} },
		Isolated: isolated,
	}
}

func registerC01() {
	res := resourceCases()
	allFaults := []string{"TRUNC", "EIO", "CORRUPT", "STRAY"}
	p := &Property{
		ID:    "C01",
		Level: "exploration",
		Rule:  "class invariant (success | SyntaxError | RuntimeError | JsonError; no panic, no foreign error value, no process death) over: the enumerated signal x wrapping x site x input grid; seeded program texts from a grammar-based generator, plain and garbled at token and byte level, with seeded selectors and inputs, evaluated under a statement budget; faulted input streams; resource shapes each in its own OS process; the EvalExpression API; the real binary (exit status / stderr / no stack trace). Distinct = distinct (outcome kind, error-message shape) or event-log shape; non-trivial = every executed case.",
		Assumptions: []string{
			"only the outcome class is asserted; no opinion on what next means in BEGIN etc.",
			"program texts up to 64 KiB as the property says; the statement budget hook (build tag verif) turns non-termination into a runtime error, which is a legal outcome",
			"known finding K7 (deep expression nesting multiplied by recursion depth overflows the Go stack) is pinned as a witness; resource shapes otherwise keep expression nesting around recursive calls small",
		},
		Components: libComponents,
	}
	p.Workloads = []*Workload{
		progWorkload("signal-grid", map[string]int{"quick": gridCount(), "thorough": gridCount()}, func(i int, t *Tape, tier string) *ProgCase { return gridCase(t.Forced(i, gridCount())) }, false),
		progWorkload("alias-soup", map[string]int{"quick": 60000, "thorough": 3000000}, func(i int, t *Tape, tier string) *ProgCase { return genAliasCase(t) }, false),
		progWorkload("escape-grid", map[string]int{"quick": escapeGridCount(), "thorough": escapeGridCount()}, func(i int, t *Tape, tier string) *ProgCase { return escapeGridCase(t.Forced(i, escapeGridCount())) }, false),
		progWorkload("printf-grid", map[string]int{"quick": printfGridCount(), "thorough": printfGridCount()}, func(i int, t *Tape, tier string) *ProgCase { return printfGridCase(t.Forced(i, printfGridCount())) }, false),
		progWorkload("progtext", map[string]int{"quick": 150000, "thorough": 8000000}, func(i int, t *Tape, tier string) *ProgCase { return genProgCase(t, tier) }, false),
		progWorkload("expr-api", map[string]int{"quick": 40000, "thorough": 2000000}, func(i int, t *Tape, tier string) *ProgCase { return genExprCase(t) }, false),
		streamWorkload("faulted-streams", map[string]int{"quick": 30000, "thorough": 1000000}, streamGenOpts{mode: "c01", maxFiles: 3, maxVals: 4, selectors: true, faults: allFaults, faultProb: 90, sigProb: 25}),
		progWorkload("resource", map[string]int{"quick": len(res), "thorough": len(res)}, func(i int, t *Tape, tier string) *ProgCase { return res[t.Forced(i, len(res))] }, true),
		{
			Name:  "limit-boundary",
			Count: func(tier string) int { return len(boundaryStmts) * map[string]int{"quick": 1, "thorough": 3}[tier] },
			Gen: func(i int, t *Tape, tier string) any {
				k := t.Forced(i, len(boundaryStmts)*3)
				return &BoundaryCase{Stmt: boundaryStmts[k%len(boundaryStmts)], PerLvl: []int{60, 75, 90}[k/len(boundaryStmts)%3]}
			},
			Run:      func(c any, keep bool) Outcome { return runBoundaryCase(c.(*BoundaryCase), keep) },
			New:      func() any { return &BoundaryCase{} },
			Isolated: true,
		},
		procWorkload("process", map[string]int{"quick": 3000, "thorough": 200000}, true),
		shrinkWorkload(map[string]int{"quick": 120, "thorough": 6000}),
		{
			// the signal grid once more, through the real binary (status / stderr / no stack trace)
			Name:  "process-grid",
			Count: func(tier string) int { return gridCount() },
			Gen: func(i int, t *Tape, tier string) any {
				g := gridCase(t.Forced(i, gridCount()))
				pc := &ProcCase{Note: g.Note, Prog: g.Prog, Selectors: g.Selectors, OMode: []string{"", "-", "file"}[i%3], ViaF: i%5 == 0}
				for _, in := range g.Inputs {
					pc.Inputs = append(pc.Inputs, ProcFile{Name: in.Name, Data: in.Data, Kind: "regular"})
				}
				if len(pc.Inputs) > 1 {
					pc.OMode = ""
				}
				return pc
			},
			Run:      func(c any, keep bool) Outcome { return runProcCase(c.(*ProcCase), keep, true) },
			New:      func() any { return &ProcCase{} },
			Simplify: simplifyProc,
		},
	}
	register(p)
}
