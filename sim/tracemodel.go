package main

// Trace programs (family T) and the reference schedule model for C02/C03.
//
// A trace program is described structurally (TProg); Render turns it into
// jqawk source; RunModel computes, from the property statement and README (not
// from EvalProgram), the exact stdout a run must produce for given files,
// values and selectors, each line annotated with the input value it belongs to.

import (
	"fmt"
	"strconv"
	"strings"
)

type Pat struct {
	Kind  string `json:"kind"`            // "const" | "t" | "nott" | "gt"
	Text  string `json:"text,omitempty"`  // const: source text
	Truth bool   `json:"truth,omitempty"` // const: its truthiness
	K     int    `json:"k,omitempty"`     // gt: $ > K
}

type Sig struct {
	What string `json:"what"`          // "next" | "exit"
	Pos  string `json:"pos"`           // "before" | "after" the trace print
	At   int    `json:"at,omitempty"`  // 0: unconditional; n>0: fires on the n-th execution of this rule's body
	Via  string `json:"via,omitempty"` // "" direct | "func" via sigN()/sigX() | "if" under if (true)
}

type TRule struct {
	Kind      string `json:"kind"` // BEGIN END BEGINFILE ENDFILE PATTERN
	Tag       string `json:"tag"`
	Pat       *Pat   `json:"pat,omitempty"`
	NoBody    bool   `json:"nobody,omitempty"`
	Reroot    string `json:"reroot,omitempty"`    // BEGINFILE: `$ = <selector>` first
	SetFlag   bool   `json:"setflag,omitempty"`   // BEGINFILE: isarr = $ is array
	SetFile   bool   `json:"setfile,omitempty"`   // ENDFILE: the rule overwrites $file after its print (the next value must see the real name again)
	SetDollar bool   `json:"setdollar,omitempty"` // BEGIN/END: the rule assigns $ after its print (the next rule must still see null)
	Sig       *Sig   `json:"sig,omitempty"`
}

type TProg struct {
	Rules      []TRule `json:"rules"`
	FuncsFirst bool    `json:"funcs_first,omitempty"`
	ViaFn      int     `json:"via_fn,omitempty"` // 0: $file/$index named directly in the rule bodies; 1: read inside functions; 2: inside match case bodies
	Semis      bool    `json:"semis,omitempty"`  // separate simple statements with ';' where allowed
}

func (p *Pat) render() string {
	switch p.Kind {
	case "const":
		return p.Text
	case "t":
		return "$.t"
	case "nott":
		return "!$.t"
	case "gt":
		return fmt.Sprintf("$ > %d", p.K)
	}
	return "true"
}

func (s *Sig) render(tag string) string {
	var stmt string
	switch s.Via {
	case "func":
		if s.What == "next" {
			stmt = "sigN()"
		} else {
			stmt = "sigX()"
		}
	case "if":
		stmt = "if (true) { " + s.What + " }"
	case "forin":
		stmt = "for (sq in [1, 2]) { " + s.What + " }"
	case "while":
		stmt = "while (true) { " + s.What + " }"
	case "match":
		stmt = "match (1) { 1 => { " + s.What + " } }"
	case "forpost":
		// the signal is raised while the third clause of a C-style for is evaluated
		if s.What == "next" {
			stmt = "for (sp = 0; sp < 2; sigN()) { sp++ }"
		} else {
			stmt = "for (sp = 0; sp < 2; sigX()) { sp++ }"
		}
	case "ifelse":
		// no braces: `exit`/`next` directly followed by else
		stmt = "if (true) " + s.What + " else print \"never\""
	case "elseif":
		stmt = "if (false) print \"never\" else if (true) " + s.What + " else print \"never2\""
	case "forinit":
		// ... while the first clause is evaluated
		if s.What == "next" {
			stmt = "for (sp = sigN(); sp < 1; sp++) { }"
		} else {
			stmt = "for (sp = sigX(); sp < 1; sp++) { }"
		}
	case "whilecond":
		if s.What == "next" {
			stmt = "while (sigN()) { }"
		} else {
			stmt = "while (sigX()) { }"
		}
	case "func2":
		// two frames deep, from inside a loop in the callee
		if s.What == "next" {
			stmt = "sigN2()"
		} else {
			stmt = "sigX2()"
		}
	default:
		stmt = s.What
	}
	if s.At > 0 {
		return fmt.Sprintf("if (c%s == %d) { %s }", tag, s.At, stmt)
	}
	return stmt
}

const traceFuncs = `function show(v) {
  if (v is array) { return "A" }
  if (v is object) { return "O" + v.id }
  return v
}
function fl() { return $file }
function ix() { return $index }
function sigN() { next }
function sigX() { exit }
function sigN2() { for (sr in [1]) { sigN() } }
function sigX2() { for (sr in [1]) { sigX() } }
`

// Render produces the jqawk source of a trace program.
func (p *TProg) Render() string {
	var sb strings.Builder
	if p.FuncsFirst {
		sb.WriteString(traceFuncs)
	}
	for _, r := range p.Rules {
		switch r.Kind {
		case "BEGIN", "END", "BEGINFILE", "ENDFILE":
			sb.WriteString(r.Kind + " ")
		case "PATTERN":
			if r.Pat != nil {
				sb.WriteString(r.Pat.render())
				if !r.NoBody {
					sb.WriteString(" ")
				}
			}
		}
		if r.NoBody {
			sb.WriteString("\n")
			continue
		}
		sb.WriteString("{\n")
		var stmts []string
		if r.Reroot != "" {
			stmts = append(stmts, "$ = "+r.Reroot)
		}
		if r.SetFlag {
			stmts = append(stmts, "isarr = $ is array")
		}
		if r.Sig != nil && r.Sig.At > 0 {
			stmts = append(stmts, "c"+r.Tag+"++")
		}
		if r.Sig != nil && r.Sig.Pos == "before" {
			stmts = append(stmts, r.Sig.render(r.Tag))
		}
		fileX, indexX := "$file", "$index"
		switch p.ViaFn {
		case 1:
			fileX, indexX = "fl()", "ix()"
		case 2:
			fileX, indexX = "match (1) { 1 => $file }", "match (1) { mz => $index }"
		}
		switch r.Kind {
		case "BEGIN", "END":
			stmts = append(stmts, fmt.Sprintf("print %q, show($)", r.Tag))
		case "BEGINFILE":
			stmts = append(stmts, fmt.Sprintf("print %q, %s, show($)", r.Tag, fileX))
		case "ENDFILE":
			stmts = append(stmts, fmt.Sprintf("print %q, %s", r.Tag, fileX))
		case "PATTERN":
			stmts = append(stmts, fmt.Sprintf("if (isarr) { print %q, %s, %s, show($) } else { print %q, %s, \"-\", show($) }", r.Tag, fileX, indexX, r.Tag, fileX))
		}
		if r.Sig != nil && r.Sig.Pos == "after" {
			stmts = append(stmts, r.Sig.render(r.Tag))
		}
		if r.SetFile && r.Kind == "ENDFILE" {
			stmts = append(stmts, "$file = \"clobbered\"")
		}
		if r.SetDollar && (r.Kind == "BEGIN" || r.Kind == "END") {
			stmts = append(stmts, fmt.Sprintf("$ = %q", "set-by-"+r.Tag))
		}
		stmts = append(stmts, fmt.Sprintf("print %q", r.Tag+"z"))
		for i, s := range stmts {
			sb.WriteString("  " + s)
			// ';' may replace the newline unless the statement ends in '}'
			if p.Semis && !strings.HasSuffix(s, "}") && i < len(stmts)-1 {
				sb.WriteString(";")
			}
			sb.WriteString("\n")
		}
		sb.WriteString("}\n")
	}
	if !p.FuncsFirst {
		sb.WriteString(traceFuncs)
	}
	return sb.String()
}

// ---- value semantics used by the model (only what trace programs observe) ----

func fmtNum(f float64) string { return strconv.FormatFloat(f, 'f', -1, 64) }

// strForm: string form used by + concatenation
func strForm(v *JVal) string {
	if v == nil {
		return ""
	}
	switch v.Kind {
	case 's':
		return v.Str
	case 'n':
		return fmtNum(v.Num)
	}
	return ""
}

func truthy(v *JVal) bool {
	if v == nil {
		return false
	}
	switch v.Kind {
	case 'b':
		return v.Bool
	case 'n':
		return v.Num != 0
	case 's':
		return len(v.Str) > 0
	case 'a', 'o':
		return true
	}
	return false
}

// pretty mirrors the documented print format (C17): top-level strings raw,
// nested strings quoted, arrays [a, b], objects {"k": v}. ok=false when the
// rendering is not fixed by the property (objects with 2+ keys: key order).
func pretty(v *JVal, quote bool) (string, bool) {
	if v == nil {
		return "null", true
	}
	switch v.Kind {
	case 's':
		if quote {
			return "\"" + v.Str + "\"", true
		}
		return v.Str, true
	case 'n':
		return fmtNum(v.Num), true
	case 'b':
		if v.Bool {
			return "true", true
		}
		return "false", true
	case 'z':
		return "null", true
	case 'a':
		parts := make([]string, len(v.Arr))
		for i, e := range v.Arr {
			s, ok := pretty(e, true)
			if !ok {
				return "", false
			}
			parts[i] = s
		}
		return "[" + strings.Join(parts, ", ") + "]", true
	case 'o':
		if len(v.Keys) > 1 {
			return "", false
		}
		if len(v.Keys) == 0 {
			return "{}", true
		}
		s, ok := pretty(v.Vals[0], true)
		if !ok {
			return "", false
		}
		return "{\"" + v.Keys[0] + "\": " + s + "}", true
	}
	return "", false
}

func show(v *JVal) string {
	if v == nil {
		return "null"
	}
	switch v.Kind {
	case 'a':
		return "A"
	case 'o':
		return "O" + strForm(v.Get("id"))
	}
	s, _ := pretty(v, false)
	return s
}

var jNull = &JVal{Kind: 'z'}

// applySel evaluates a selector from the path grammar `$(.ident|[int])*`.
// ok=false when the result is outside what the property/README fix.
func applySel(v *JVal, sel string) (*JVal, bool) {
	if !strings.HasPrefix(sel, "$") {
		return nil, false
	}
	rest := sel[1:]
	cur := v
	for len(rest) > 0 {
		switch rest[0] {
		case '.':
			j := 1
			for j < len(rest) && rest[j] != '.' && rest[j] != '[' {
				j++
			}
			key := rest[1:j]
			rest = rest[j:]
			switch cur.Kind {
			case 'o':
				m := cur.Get(key)
				if m == nil {
					cur = jNull
				} else {
					cur = m
				}
			case 'z':
				cur = jNull // optional chaining through a missing member
			default:
				return nil, false
			}
		case '[':
			j := strings.IndexByte(rest, ']')
			if j < 0 {
				return nil, false
			}
			idx, err := strconv.Atoi(rest[1:j])
			if err != nil {
				return nil, false
			}
			rest = rest[j+1:]
			switch cur.Kind {
			case 'a':
				n := len(cur.Arr)
				if idx < 0 {
					idx += n
					if idx < 0 {
						return nil, false // an index before the start is an error
					}
				}
				if idx >= n {
					cur = jNull
				} else {
					cur = cur.Arr[idx]
				}
			case 'z':
				cur = jNull
			default:
				return nil, false
			}
		default:
			return nil, false
		}
	}
	return cur, true
}

type ModelLine struct {
	Text string
	File int // -1: BEGIN; len(files): END
	Val  int
}

type ModelFile struct {
	Name   string
	Values []*JVal
}

type ModelResult struct {
	text   string // cached Text()
	cum    []int  // cached cumulative byte length after each line
	Lines  []ModelLine
	Exited bool
	OK     bool   // false: the configuration leaves the model's domain
	Why    string // reason when !OK
}

func (m *ModelResult) Text() string {
	if m.text != "" || len(m.Lines) == 0 {
		return m.text
	}
	var sb strings.Builder
	for _, l := range m.Lines {
		sb.WriteString(l.Text)
		sb.WriteByte('\n')
	}
	m.text = sb.String()
	return m.text
}

// PrefixLen returns the number of stdout bytes owned by BEGIN rules and by
// values up to and including (file, val).
func (m *ModelResult) PrefixLen(file, val int) int {
	// lines are emitted in (file, value) order: binary search on the cumulative lengths
	if m.cum == nil {
		m.cum = make([]int, len(m.Lines)+1)
		for i, l := range m.Lines {
			m.cum[i+1] = m.cum[i] + len(l.Text) + 1
		}
	}
	lo, hi := 0, len(m.Lines)
	for lo < hi {
		mid := (lo + hi) / 2
		l := m.Lines[mid]
		if l.File < file || (l.File == file && l.Val <= val) {
			lo = mid + 1
		} else {
			hi = mid
		}
	}
	return m.cum[lo]
}

type modelExit struct{}

// RunModel executes the reference schedule. withEnd=false models a run that is
// stopped by an input error after the last listed value (END rules do not run).
func RunModel(p *TProg, files []ModelFile, selectors []string, withEnd bool) (res ModelResult) {
	res.OK = true
	counters := map[string]int{}
	isarr := false
	cur := [2]int{-1, 0}
	emit := func(s string) {
		res.Lines = append(res.Lines, ModelLine{s, cur[0], cur[1]})
	}
	fail := func(why string) {
		if res.OK {
			res.OK = false
			res.Why = why
		}
	}
	defer func() {
		if r := recover(); r != nil {
			if _, ok := r.(modelExit); ok {
				res.Exited = true
				return
			}
			panic(r)
		}
	}()

	// runBody executes a rule body; returns true if `next` fired.
	// $file as the program sees it: published anew for every value; an ENDFILE
	// rule may overwrite it (SetFile) for the rest of that value's processing
	curFile := ""
	runBody := func(r *TRule, root **JVal, elem *JVal, index int, _ string) bool {
		fname := curFile
		if r.Reroot != "" {
			nv, ok := applySel(*root, r.Reroot)
			if !ok {
				fail("reroot selector outside model domain")
				nv = jNull
			}
			*root = nv
			elem = nv
		}
		if r.SetFlag {
			isarr = (*root).Kind == 'a'
		}
		fire := false
		if r.Sig != nil {
			if r.Sig.At > 0 {
				counters[r.Tag]++
				fire = counters[r.Tag] == r.Sig.At
			} else {
				fire = true
			}
		}
		doSig := func() bool {
			if r.Sig.What == "exit" {
				panic(modelExit{})
			}
			return true // next
		}
		if fire && r.Sig.Pos == "before" {
			if doSig() {
				return true
			}
		}
		switch r.Kind {
		case "BEGIN", "END":
			emit(r.Tag + " null")
		case "BEGINFILE":
			emit(r.Tag + " " + fname + " " + show(*root))
		case "ENDFILE":
			emit(r.Tag + " " + fname)
			if r.SetFile {
				curFile = "clobbered"
			}
		case "PATTERN":
			if isarr {
				emit(r.Tag + " " + fname + " " + strconv.Itoa(index) + " " + show(elem))
			} else {
				emit(r.Tag + " " + fname + " - " + show(elem))
			}
		}
		if fire && r.Sig.Pos == "after" {
			if doSig() {
				return true
			}
		}
		emit(r.Tag + "z")
		return false
	}

	patTrue := func(p *Pat, elem *JVal) bool {
		switch p.Kind {
		case "const":
			return p.Truth
		case "t":
			if elem.Kind == 'o' {
				return truthy(elem.Get("t"))
			}
			return false
		case "nott":
			if elem.Kind == 'o' {
				return !truthy(elem.Get("t"))
			}
			return true
		case "gt":
			if elem.Kind == 'z' {
				return false // null ranks below everything
			}
			if elem.Kind != 'n' {
				fail("$ > k on a non-number")
				return false
			}
			return elem.Num > float64(p.K)
		}
		return false
	}

	kind := func(k string) []*TRule {
		var out []*TRule
		for i := range p.Rules {
			if p.Rules[i].Kind == k {
				out = append(out, &p.Rules[i])
			}
		}
		return out
	}
	begins, ends, bfs, efs, pats := kind("BEGIN"), kind("END"), kind("BEGINFILE"), kind("ENDFILE"), kind("PATTERN")

	null := jNull
	// a body-less special rule prints $: null for BEGIN/END, the selected root for BEGINFILE
	bare := func(r *TRule, root *JVal) bool {
		if !r.NoBody {
			return false
		}
		s, ok := pretty(root, false)
		if !ok {
			fail("bare print of a multi-key object")
		}
		emit(s)
		return true
	}
	for _, r := range begins {
		if bare(r, null) {
			continue
		}
		runBody(r, &null, null, 0, "")
	}
	for fi, f := range files {
		for vi, v := range f.Values {
			cur = [2]int{fi, vi}
			curFile = f.Name
			roots := []*JVal{v}
			if len(selectors) > 0 {
				roots = roots[:0]
				for _, s := range selectors {
					rv, ok := applySel(v, s)
					if !ok {
						fail("selector outside model domain")
						rv = jNull
					}
					roots = append(roots, rv)
				}
			}
			for _, root := range roots {
				root := root
				for _, r := range bfs {
					if bare(r, root) {
						continue
					}
					runBody(r, &root, root, 0, f.Name)
				}
				runElem := func(elem *JVal, idx int) {
					for _, r := range pats {
						if r.Pat != nil && !patTrue(r.Pat, elem) {
							continue
						}
						if r.NoBody {
							s, ok := pretty(elem, false)
							if !ok {
								fail("bare print of a multi-key object")
							}
							emit(s)
							continue
						}
						if runBody(r, &root, elem, idx, f.Name) {
							break
						}
					}
				}
				if root.Kind == 'a' {
					for i, e := range root.Arr {
						runElem(e, i)
					}
				} else {
					runElem(root, 0)
				}
				for _, r := range efs {
					runBody(r, &root, root, 0, f.Name)
				}
			}
		}
	}
	if withEnd {
		cur = [2]int{len(files), 0}
		for _, r := range ends {
			if bare(r, null) {
				continue
			}
			runBody(r, &null, null, 0, "")
		}
	}
	return res
}
