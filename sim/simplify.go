package main

// Structural minimisation of materialised cases (second shrinking pass, after
// the draw-tape pass). Replay files store the materialised case and replay
// does not depend on the generators, so a case may be simplified directly:
// drop a file, a rule, a selector, a value, a schedule, an operation. A
// candidate is kept iff the same violation class persists.

import (
	"encoding/json"
)

func cloneCase(w *Workload, c any) any {
	b, _ := json.Marshal(c)
	n := w.New()
	json.Unmarshal(b, n)
	return n
}

// dropEach returns, for a list of length n, the index sets to try removing:
// halves first, then single elements from the end.
func dropPlans(n int) [][2]int {
	var plans [][2]int
	for size := n / 2; size >= 2; size /= 2 {
		for lo := 0; lo+size <= n; lo += size {
			plans = append(plans, [2]int{lo, lo + size})
		}
	}
	// single elements (only for lists short enough for that to pay off)
	if n <= 400 {
		for i := n - 1; i >= 0; i-- {
			plans = append(plans, [2]int{i, i + 1})
		}
	}
	return plans
}

func simplifyStream(w *Workload, c any) []func() any {
	sc := c.(*StreamCase)
	var out []func() any
	add := func(f func(n *StreamCase) bool) {
		out = append(out, func() any {
			n := cloneCase(w, sc).(*StreamCase)
			if !f(n) {
				return nil
			}
			if n.Prog != nil {
				n.ProgText = n.Prog.Render()
			}
			return n
		})
	}
	// drop a file
	for i := len(sc.Files) - 1; i >= 0; i-- {
		i := i
		add(func(n *StreamCase) bool {
			if n.Fault != nil {
				if n.Fault.File == i {
					return false
				}
				if n.Fault.File > i {
					n.Fault.File--
				}
			}
			n.Files = append(n.Files[:i], n.Files[i+1:]...)
			return true
		})
	}
	// drop selectors
	if len(sc.Selectors) > 0 {
		add(func(n *StreamCase) bool { n.Selectors = nil; return true })
		for i := range sc.Selectors {
			i := i
			add(func(n *StreamCase) bool { n.Selectors = append(n.Selectors[:i], n.Selectors[i+1:]...); return true })
		}
	}
	// drop a rule / a signal / a pattern
	if sc.Prog != nil {
		for i := len(sc.Prog.Rules) - 1; i >= 0; i-- {
			i := i
			if !sc.Prog.Rules[i].SetFlag {
				add(func(n *StreamCase) bool {
					n.Prog.Rules = append(n.Prog.Rules[:i], n.Prog.Rules[i+1:]...)
					fixNoBody(n.Prog)
					return true
				})
			}
			if sc.Prog.Rules[i].Sig != nil {
				add(func(n *StreamCase) bool { n.Prog.Rules[i].Sig = nil; return true })
			}
			if sc.Prog.Rules[i].Pat != nil && !sc.Prog.Rules[i].NoBody {
				add(func(n *StreamCase) bool { n.Prog.Rules[i].Pat = nil; fixNoBody(n.Prog); return true })
			}
			if sc.Prog.Rules[i].Reroot != "" {
				add(func(n *StreamCase) bool { n.Prog.Rules[i].Reroot = ""; return true })
			}
		}
		if sc.Prog.Semis {
			add(func(n *StreamCase) bool { n.Prog.Semis = false; return true })
		}
	}
	// simplest delivery
	for i := range sc.Files {
		i := i
		if sc.Files[i].Sched != nil || sc.Files[i].EOFWithData {
			add(func(n *StreamCase) bool { n.Files[i].Sched = nil; n.Files[i].EOFWithData = false; return true })
		}
	}
	// drop a top-level value from a file (fault offsets shift accordingly)
	for i := range sc.Files {
		ref := ScanStream(sc.Files[i].Data)
		for k := len(ref.Values) - 1; k >= 0; k-- {
			i, start, end := i, ref.Values[k].Start, ref.Values[k].End
			add(func(n *StreamCase) bool {
				d := n.Files[i].Data
				for end < len(d) && isWS(d[end]) {
					end++
				}
				if n.Fault != nil && n.Fault.File == i {
					if n.Fault.Off > start && n.Fault.Off < end {
						return false
					}
					if n.Fault.Off >= end {
						n.Fault.Off -= end - start
					}
				}
				n.Files[i].Data = append(append(QBytes{}, d[:start]...), d[end:]...)
				n.Files[i].Sched = nil
				return true
			})
		}
	}
	return out
}

func simplifyCall(w *Workload, c any) []func() any {
	cc := c.(*CallCase)
	var out []func() any
	for _, p := range dropPlans(len(cc.Ops)) {
		p := p
		out = append(out, func() any {
			n := &CallCase{Arity: cc.Arity, LoopKind: cc.LoopKind, Chunk: cc.Chunk, Builtins: cc.Builtins}
			n.Ops = append(append([]CallOp{}, cc.Ops[:p[0]]...), cc.Ops[p[1]:]...)
			return n
		})
	}
	if cc.Chunk != 0 {
		out = append(out, func() any {
			n := cloneCase(w, cc).(*CallCase)
			n.Chunk = 0
			return n
		})
	}
	if cc.Builtins != 0 {
		out = append(out, func() any {
			n := cloneCase(w, cc).(*CallCase)
			n.Builtins = 0
			return n
		})
	}
	return out
}

func simplifyHeap(w *Workload, c any) []func() any {
	hc := c.(*HeapCase)
	var out []func() any
	for _, p := range dropPlans(len(hc.Ops)) {
		p := p
		out = append(out, func() any {
			n := cloneCase(w, hc).(*HeapCase)
			n.Ops = append(n.Ops[:p[0]], n.Ops[p[1]:]...)
			return n
		})
	}
	if hc.Doc != "{}" {
		out = append(out, func() any {
			n := cloneCase(w, hc).(*HeapCase)
			n.Doc = "{}"
			return n
		})
	}
	if hc.Passes > 1 {
		out = append(out, func() any {
			n := cloneCase(w, hc).(*HeapCase)
			n.Passes--
			return n
		})
	}
	return out
}

func simplifyList(w *Workload, c any) []func() any {
	lc := c.(*ListCase)
	var out []func() any
	for _, p := range dropPlans(len(lc.Ops)) {
		p := p
		out = append(out, func() any {
			n := cloneCase(w, lc).(*ListCase)
			n.Ops = append(n.Ops[:p[0]], n.Ops[p[1]:]...)
			return n
		})
	}
	for i := 0; i < 3; i++ {
		i := i
		if lc.Init[i] != "[]" {
			out = append(out, func() any {
				n := cloneCase(w, lc).(*ListCase)
				n.Init[i] = "[]"
				return n
			})
		}
	}
	if lc.Passes != 0 {
		out = append(out, func() any {
			n := cloneCase(w, lc).(*ListCase)
			n.Passes = 0
			return n
		})
	}
	return out
}

func simplifyHist(w *Workload, c any) []func() any {
	hc := c.(*HistCase)
	var out []func() any
	if hc.Kind != "history" {
		return nil
	}
	for _, p := range dropPlans(len(hc.Order)) {
		p := p
		out = append(out, func() any {
			n := cloneCase(w, hc).(*HistCase)
			n.Order = append(n.Order[:p[0]], n.Order[p[1]:]...)
			if len(n.Order) == 0 {
				return nil
			}
			return n
		})
	}
	return out
}

func simplifyProc(w *Workload, c any) []func() any {
	pc := c.(*ProcCase)
	var out []func() any
	add := func(f func(n *ProcCase) bool) {
		out = append(out, func() any {
			n := cloneCase(w, pc).(*ProcCase)
			if !f(n) {
				return nil
			}
			return n
		})
	}
	if len(pc.Env) > 0 {
		add(func(n *ProcCase) bool { n.Env = nil; return true })
	}
	if pc.Extra > 0 {
		add(func(n *ProcCase) bool { n.Extra = 0; return true })
	}
	if pc.DashDash {
		add(func(n *ProcCase) bool { n.DashDash = false; return true })
	}
	if pc.ViaF && !pc.FMissing {
		add(func(n *ProcCase) bool { n.ViaF = false; return true })
	}
	if pc.Relation != "r-vs-beginfile" && len(pc.Selectors) > 0 {
		add(func(n *ProcCase) bool { n.Selectors = nil; return true })
	}
	for i := len(pc.Inputs) - 1; i >= 0; i-- {
		i := i
		if len(pc.Inputs) > 1 && (pc.Strace == nil || pc.Strace.Input != i) {
			add(func(n *ProcCase) bool {
				n.Inputs = append(n.Inputs[:i], n.Inputs[i+1:]...)
				if n.Strace != nil && n.Strace.Input > i {
					n.Strace.Input--
				}
				return true
			})
		}
	}
	// drop top-level values from inputs / stdin
	for i := range pc.Inputs {
		ref := ScanStream(pc.Inputs[i].Data)
		for k := len(ref.Values) - 1; k >= 0 && len(ref.Values) > 1; k-- {
			i, start, end := i, ref.Values[k].Start, ref.Values[k].End
			add(func(n *ProcCase) bool {
				d := n.Inputs[i].Data
				n.Inputs[i].Data = append(append(QBytes{}, d[:start]...), d[end:]...)
				return true
			})
		}
	}
	return out
}
